"""Developer helper: time import + one JIT-heavy assembly (used to measure how JIT scales across processes)."""
import sys
import time

t = time.time()
sys.path[:0] = ["/verif", "/repo"]
import bempp_cl.api  # noqa: E402
from vlib import meshgen as mg, opgen as og  # noqa: E402

g = mg.make_grid({"base": "octa"})
p = bempp_cl.api.function_space(g, "P", 1)
t1 = time.time()
A = og.dense(og.boundary_operator("laplace", "V", p, p, p))
print("import+grid %.1f  assemble(JIT) %.1f" % (t1 - t, time.time() - t1))

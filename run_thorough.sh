#!/bin/bash
# Developer helper: run thorough checks in sequence (evidence is written by each run).
ids=${@:-C12 C11 C19 C20 C15 C14 C16 C02 C01 C06 C18 C05 C08 C09 C10 C13 C07 C17 C03 C04}
mkdir -p /verif/out/logs
for id in $ids; do
  s=$(date +%s)
  VERIF_PROCS=${VERIF_PROCS:-6} /venv/bin/python /verif/check.py $id --tier thorough --no-evidence > /verif/out/logs/$id.thorough.log 2>&1
  rc=$?
  echo "$id rc=$rc $(( $(date +%s) - s ))s $(tail -1 /verif/out/logs/$id.thorough.log | cut -c1-200)"
done

#!/bin/bash
# Run the 53 pinned tests inside the patched scratch worktree of one seeded mutation; append the summary line to confirm.txt.
n=$1; wt=/tmp/wt/ev/$n; s=/verif/seeded/$n
grep -q '^stable_with_patch' $s/confirm.txt 2>/dev/null && exit 0
mkdir -p /tmp/wt/ev_run/$n
cd $wt && nice -n 19 env OMP_WAIT_POLICY=passive GOMP_SPINCOUNT=0 NUMBA_NUM_THREADS=2 /venv/bin/python -m pytest -q -p no:cacheprovider --timeout=2400 $(cat /tmp/wt/stable_tests.txt | tr '\n' ' ') > /tmp/wt/ev_run/$n/stable.log 2>&1
tail -1 /tmp/wt/ev_run/$n/stable.log | sed 's/^/stable_with_patch: /' >> $s/confirm.txt

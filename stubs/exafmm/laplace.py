from ._common import init_sources, init_targets, setup, update_charges, clear_values, direct_sum  # noqa: F401


class LaplaceFmm(object):
    def __init__(self, expansion_order, ncrit, filename=None):
        self.p, self.ncrit, self.filename = expansion_order, ncrit, filename


def evaluate(tree, fmm):
    return direct_sum(tree, "laplace")

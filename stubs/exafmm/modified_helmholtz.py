from ._common import init_sources, init_targets, setup, update_charges, clear_values, direct_sum  # noqa: F401


class ModifiedHelmholtzFmm(object):
    def __init__(self, expansion_order, ncrit, wavenumber, filename=None):
        self.p, self.ncrit, self.wavenumber, self.filename = expansion_order, ncrit, float(wavenumber), filename


def evaluate(tree, fmm):
    return direct_sum(tree, "modified", fmm.wavenumber)

import numpy as np

_INV4PI = 1.0 / (4.0 * np.pi)


class _Tree(object):
    def __init__(self, sources, targets, fmm):
        self.sources = np.ascontiguousarray(sources[0], dtype=np.float64)
        self.charges = np.array(sources[1])
        self.targets = np.ascontiguousarray(targets, dtype=np.float64)
        self.fmm = fmm


def init_sources(points, charges):
    return (np.array(points, dtype=np.float64), np.array(charges))


def init_targets(points):
    return np.array(points, dtype=np.float64)


def setup(sources, targets, fmm):
    return _Tree(sources, targets, fmm)


def update_charges(tree, charges):
    tree.charges = np.array(charges)


def clear_values(tree):
    pass


def direct_sum(tree, kind, k=None, block=256):
    """Exact summation. kind: laplace | helmholtz (k complex) | modified (k = omega real)."""
    T, S, q = tree.targets, tree.sources, tree.charges
    cplx = kind == "helmholtz" or np.iscomplexobj(q)
    out = np.zeros((T.shape[0], 4), dtype=np.complex128 if cplx else np.float64)
    for a in range(0, T.shape[0], block):
        t = T[a:a + block]
        d = t[:, None, :] - S[None, :, :]  # (nt, ns, 3)
        r = np.sqrt(np.sum(d * d, axis=2))
        zero = r == 0
        rs = np.where(zero, 1.0, r)
        if kind == "laplace":
            g = _INV4PI / rs
            dg = -g / rs  # dG/dr
        elif kind == "helmholtz":
            g = _INV4PI * np.exp(1j * k * rs) / rs
            dg = g * (1j * k - 1.0 / rs)
        else:
            g = _INV4PI * np.exp(-k * rs) / rs
            dg = g * (-k - 1.0 / rs)
        g = np.where(zero, 0.0, g)
        dg = np.where(zero, 0.0, dg)
        out[a:a + block, 0] = g @ q
        for c in range(3):
            out[a:a + block, 1 + c] = (dg * d[:, :, c] / rs) @ q
    return out

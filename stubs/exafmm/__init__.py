"""Stand-in for the exafmm-t Python API used by bempp_cl/api/fmm/exafmm.py.

The fast-multipole evaluation is replaced by an *exact* blocked direct summation of the same
point sources (property C17: "an exact far-field evaluator"). Kernel formulas are written here
from the definitions, independently of bempp_cl.

evaluate() returns an (ntargets, 4) array [G q, d/dx, d/dy, d/dz] (gradient w.r.t. the target,
self-interaction = 0), like exafmm-t.
"""

// Minimal model of the OpenCL C features used by bempp-cl's kernels.h and shapeset headers,
// so that the unmodified headers compile with g++ (IEEE host arithmetic; rsqrt = 1/sqrt).
#pragma once
#include <cmath>
#include <cstddef>

#define __global
#define __kernel
#define __local
#define __constant const

template <typename T, int N> struct Vec {
  T s[N];
  Vec() {}
  Vec(T v) { for (int i = 0; i < N; ++i) s[i] = v; }
  T& operator[](int i) { return s[i]; }
  const T& operator[](int i) const { return s[i]; }
};
#define VOP(op) \
  template <typename T, int N> inline Vec<T, N> operator op(const Vec<T, N>& a, const Vec<T, N>& b) { Vec<T, N> r; for (int i = 0; i < N; ++i) r.s[i] = a.s[i] op b.s[i]; return r; } \
  template <typename T, int N, typename S> inline Vec<T, N> operator op(const Vec<T, N>& a, S b) { Vec<T, N> r; for (int i = 0; i < N; ++i) r.s[i] = a.s[i] op (T)b; return r; } \
  template <typename T, int N, typename S> inline Vec<T, N> operator op(S a, const Vec<T, N>& b) { Vec<T, N> r; for (int i = 0; i < N; ++i) r.s[i] = (T)a op b.s[i]; return r; }
VOP(+) VOP(-) VOP(*) VOP(/)
#undef VOP
#define VASSIGN(op) \
  template <typename T, int N> inline Vec<T, N>& operator op##=(Vec<T, N>& a, const Vec<T, N>& b) { for (int i = 0; i < N; ++i) a.s[i] op##= b.s[i]; return a; } \
  template <typename T, int N, typename S> inline Vec<T, N>& operator op##=(Vec<T, N>& a, S b) { for (int i = 0; i < N; ++i) a.s[i] op##= (T)b; return a; }
VASSIGN(+) VASSIGN(-) VASSIGN(*) VASSIGN(/)
#undef VASSIGN
template <typename T, int N> inline Vec<T, N> operator-(const Vec<T, N>& a) { Vec<T, N> r; for (int i = 0; i < N; ++i) r.s[i] = -a.s[i]; return r; }
#define VFUN(name, expr) \
  template <typename T, int N> inline Vec<T, N> name(const Vec<T, N>& a) { Vec<T, N> r; for (int i = 0; i < N; ++i) { T x = a.s[i]; r.s[i] = (expr); } return r; }
VFUN(sqrt, std::sqrt(x)) VFUN(rsqrt, (T)1 / std::sqrt(x)) VFUN(cos, std::cos(x)) VFUN(sin, std::sin(x)) VFUN(exp, std::exp(x))
#undef VFUN
inline float rsqrt(float x) { return 1.0f / std::sqrt(x); }
inline double rsqrt(double x) { return 1.0 / std::sqrt(x); }
using std::cos; using std::exp; using std::sin; using std::sqrt;

template <typename T> struct V2 { T x, y; };
template <typename T> struct V3 {
  T x, y, z;
  V3() {}
  V3(T a, T b, T c) : x(a), y(b), z(c) {}
};
template <typename T> inline V3<T> operator-(const V3<T>& a, const V3<T>& b) { return V3<T>(a.x - b.x, a.y - b.y, a.z - b.z); }
template <typename T> inline V3<T> operator+(const V3<T>& a, const V3<T>& b) { return V3<T>(a.x + b.x, a.y + b.y, a.z + b.z); }
template <typename T> inline T dot(const V3<T>& a, const V3<T>& b) { return a.x * b.x + a.y * b.y + a.z * b.z; }
template <typename T> inline T length(const V3<T>& a) { return std::sqrt(dot(a, a)); }
template <typename T> inline T distance(const V3<T>& a, const V3<T>& b) { return length(a - b); }

typedef V2<float> float2; typedef V3<float> float3; typedef Vec<float, 4> float4; typedef Vec<float, 8> float8; typedef Vec<float, 16> float16;
typedef V2<double> double2; typedef V3<double> double3; typedef Vec<double, 4> double4; typedef Vec<double, 8> double8; typedef Vec<double, 16> double16;

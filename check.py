#!/venv/bin/python
"""Single entry point of the bempp-cl property checks.

    check.py <ID> [--tier quick|thorough] [--replay FILE] [--only CHECK] [--jobs N]

exit 0: property held on everything explored (KNOWN-FINDING lines possible)
exit 1: at least one ``VIOLATION property=<ID> replay=<path>`` line
exit 2: harness error
"""

import argparse
import fnmatch
import hashlib
import importlib
import json
import os
import shutil
import subprocess
import sys
import time

HERE = os.path.dirname(os.path.abspath(__file__))
sys.path.insert(0, HERE)
PY = "/venv/bin/python"


def repo_root():
    return os.path.realpath(os.environ.get("VERIF_REPO", "/repo"))


def shard_seed(seed, prop, idx):
    h = hashlib.sha256(f"{seed}:{prop}:{idx}".encode()).hexdigest()
    return int(h[:12], 16)


def load_known():
    path = os.path.join(HERE, "known_findings.json")
    if not os.path.exists(path):
        return []
    return json.load(open(path)).get("findings", [])


def worker_env(scratch, threads):
    env = dict(os.environ)
    env["PYTHONHASHSEED"] = "0"
    env["NUMBA_NUM_THREADS"] = str(threads)
    env["OMP_NUM_THREADS"] = str(threads)
    env["OMP_WAIT_POLICY"] = "passive"
    env["GOMP_SPINCOUNT"] = "0"
    env["MKL_NUM_THREADS"] = "1"
    env["OPENBLAS_NUM_THREADS"] = "1"
    env["NUMBA_CACHE_DIR"] = os.path.join(scratch, "numba_cache")
    env["BEMPP_CL_VERIF"] = "1"
    pp = [HERE, os.path.join(HERE, "stubs"), repo_root()]
    if env.get("PYTHONPATH"):
        pp.append(env["PYTHONPATH"])
    env["PYTHONPATH"] = os.pathsep.join(pp)
    env["VERIF_SCRATCH"] = scratch
    env["PYTHONDONTWRITEBYTECODE"] = "1"
    return env


def run_shards(prop, specs, scratch, jobs):
    """Run shard specs in parallel fresh interpreters; return list of result dicts."""
    pending = list(enumerate(specs))
    running = []
    results = [None] * len(specs)
    used = 0
    while pending or running:
        # launch
        while pending:
            idx, spec = pending[0]
            th = int(spec.get("threads", 1))
            if running and used + th > jobs:
                break
            pending.pop(0)
            sdir = os.path.join(scratch, f"shard{idx}")
            os.makedirs(sdir, exist_ok=True)
            sf = os.path.join(sdir, "spec.json")
            of = os.path.join(sdir, "out.json")
            json.dump(spec, open(sf, "w"))
            log = open(os.path.join(sdir, "log.txt"), "w")
            p = subprocess.Popen(
                [PY, "-m", "vlib.worker", prop, sf, of],
                cwd=sdir,
                env=worker_env(sdir, th),
                stdout=log,
                stderr=subprocess.STDOUT,
            )
            hard = time.time() + float(spec.get("budget_s", 600)) * 3 + 900
            running.append((idx, p, of, th, hard, log, sdir))
            used += th
        time.sleep(0.2)
        still = []
        for idx, p, of, th, hard, log, sdir in running:
            rc = p.poll()
            if rc is None and time.time() < hard:
                still.append((idx, p, of, th, hard, log, sdir))
                continue
            if rc is None:
                p.kill()
                p.wait()
            log.close()
            used -= th
            if os.path.exists(of):
                results[idx] = json.load(open(of))
            else:
                tail = open(os.path.join(sdir, "log.txt")).read()[-3000:]
                results[idx] = {
                    "spec": specs[idx],
                    "status": "harness_error",
                    "error": f"worker died rc={rc} (killed={rc is None})\n{tail}",
                }
        running = still
    return results


def run_packed(prop, specs, scratch, jobs, procs):
    """Pack the shard specs into at most `procs` interpreters (contiguous chunks balanced by budget: neighbouring shards use the
    same JIT-compiled code, and concurrent Numba compilation does not scale on this kind of machine), run, and flatten."""
    if len(specs) <= procs:
        return run_shards(prop, specs, scratch, jobs)
    cost = [float(s.get("budget_s", 60)) + 40.0 for s in specs]
    target = sum(cost) / procs
    chunks, cur, acc = [], [], 0.0
    for i, s in enumerate(specs):
        remaining_chunks = procs - len(chunks)
        remaining_items = len(specs) - i
        if cur and (acc + cost[i] / 2 > target or remaining_items <= remaining_chunks - 1) and len(chunks) < procs - 1:
            chunks.append(cur)
            cur, acc = [], 0.0
        cur.append(i)
        acc += cost[i]
    if cur:
        chunks.append(cur)
    packed = []
    for ch in chunks:
        if len(ch) == 1:
            packed.append(specs[ch[0]])
        else:
            packed.append({"multi": [specs[i] for i in ch], "threads": max(int(specs[i].get("threads", 1)) for i in ch),
                           "budget_s": sum(float(specs[i].get("budget_s", 60)) for i in ch)})
    raw = run_shards(prop, packed, scratch, jobs)
    results = [None] * len(specs)
    for pi, (ch, r) in enumerate(zip(chunks, raw)):
        if len(ch) == 1:
            results[ch[0]] = r
            continue
        sub = r.get("results")
        if sub is None:
            part = os.path.join(scratch, f"shard{pi}", "out.json.partial")
            sub = json.load(open(part)).get("results", []) if os.path.exists(part) else []
        for j, i in enumerate(ch):
            if j < len(sub):
                results[i] = sub[j]
            else:
                results[i] = {"spec": specs[i], "status": "harness_error", "error": r.get("error", "packed worker ended early")}
    return results


def main():
    ap = argparse.ArgumentParser()
    ap.add_argument("prop")
    ap.add_argument("--tier", default=os.environ.get("VERIF_TIER", "quick"))
    ap.add_argument("--replay", default=None)
    ap.add_argument("--only", default=None, help="run only shards whose check name matches (glob)")
    ap.add_argument("--jobs", type=int, default=int(os.environ.get("VERIF_JOBS", "16")))
    ap.add_argument("--procs", type=int, default=int(os.environ.get("VERIF_PROCS", "0")), help="max worker interpreters (0: 6 quick, 8 thorough)")
    ap.add_argument("--no-evidence", action="store_true")
    args = ap.parse_args()
    prop = args.prop.upper()
    tier = args.tier if args.tier in ("quick", "thorough") else "quick"
    try:
        seed = int(os.environ.get("VERIF_SEED", "1"))
    except ValueError:
        seed = 1
    t0 = time.time()
    scratch = os.path.join(HERE, ".scratch", f"{prop}-{os.getpid()}")
    shutil.rmtree(scratch, ignore_errors=True)
    os.makedirs(scratch)
    rc = 2
    try:
        rc = _main(prop, tier, seed, args, scratch, t0)
    finally:
        shutil.rmtree(scratch, ignore_errors=True)
        try:
            os.rmdir(os.path.join(HERE, ".scratch"))
        except OSError:
            pass
    sys.exit(rc)


def _main(prop, tier, seed, args, scratch, t0):
    mod = importlib.import_module("props." + prop.lower())
    known = [k for k in load_known() if k["property"] == prop]

    if args.replay:
        item = json.load(open(args.replay))
        specs = [{"replay": [{"check": item["check"], "descriptor": item["descriptor"], "source": args.replay}],
                  "threads": 2}]
    else:
        specs = []
        # replay stage: committed regression cases
        rdir = os.path.join(HERE, "replays", prop)
        items = []
        if os.path.isdir(rdir):
            for fn in sorted(os.listdir(rdir)):
                if fn.endswith(".json"):
                    it = json.load(open(os.path.join(rdir, fn)))
                    items.append({"check": it["check"], "descriptor": it["descriptor"], "source": fn})
        if items and not args.only:
            specs.append({"replay": items, "threads": 2, "budget_s": 600})
        try:
            shard_list = mod.shards(tier, seed)
        except TypeError:
            shard_list = mod.shards(tier)
        for s in shard_list:
            if args.only and not fnmatch.fnmatch(s["check"], args.only):
                continue
            specs.append(s)
    if tier == "thorough":
        # The modules size their thorough shards for an overnight run (8-12x the quick tier, every operator/space combination).
        # VERIF_THOROUGH_SCALE scales examples and budgets; the default is what was validated on the unchanged tree in this sandbox.
        sc = float(os.environ.get("VERIF_THOROUGH_SCALE", "0.25"))
        for s in specs:
            if "examples" in s:
                s["examples"] = max(int(round(s["examples"] * sc)), min(int(s["examples"]), 10))
            if "budget_s" in s and "replay" not in s:
                s["budget_s"] = max(float(s["budget_s"]) * sc, min(float(s["budget_s"]), 240.0))
    if tier == "quick":
        # Quick shards are bounded by their case counts; the wall-clock budget is only a guard for a loaded machine (JIT compilation
        # slows down several-fold when other jobs compile at the same time), so it is generous.
        qs = float(os.environ.get("VERIF_QUICK_BUDGET_SCALE", "3.0"))
        for s in specs:
            if "budget_s" in s and "replay" not in s:
                s["budget_s"] = float(s["budget_s"]) * qs
    for i, s in enumerate(specs):
        s.setdefault("seed", shard_seed(seed, prop, i))
        s.setdefault("tier", tier)
        s.setdefault("prop", prop)

    results = run_packed(prop, specs, scratch, args.jobs, args.procs or (6 if tier == "quick" else 8))

    harness_errors = [r for r in results if r.get("status") != "ok"]
    evaluations = 0
    nontrivial = set()
    labels = {}
    samples = []
    failures = []
    excluded = 0
    skipped = 0
    shard_info = []
    extras = {}
    for r in results:
        sp = r.get("spec", {})
        shard_info.append(
            {
                "check": sp.get("check", "replay" if "replay" in sp else "?"),
                "status": r.get("status"),
                "evaluations": r.get("evaluations", 0),
                "wall_s": round(r.get("wall_s", 0.0), 1),
                "params": {k: v for k, v in sp.items() if k not in ("check", "seed", "tier", "prop", "replay")},
            }
        )
        if r.get("status") != "ok":
            continue
        evaluations += r["evaluations"]
        nontrivial.update(r["keys_nontrivial"])
        for k, v in r["labels"].items():
            labels[k] = labels.get(k, 0) + v
        for s in r["samples"]:
            if len(samples) < 8:
                samples.append(s)
        failures.extend(r["failures"])
        excluded += r["excluded_by_signature"]
        skipped += r["skipped_budget"]
        if r.get("extra"):
            for k, v in r["extra"].items():
                extras.setdefault(k, []).append(v)

    # classify failures
    known_hits = {}
    violations = {}
    for f in failures:
        hit = None
        for k in known:
            if fnmatch.fnmatchcase(f["signature"], k["signature"]):
                hit = k
                break
        if hit is not None:
            known_hits.setdefault(hit["signature"], (hit, f))
        else:
            violations.setdefault(f["signature"], f)

    out_lines = []
    vdir = os.path.join(HERE, "out", "violations", prop)
    for sig, f in sorted(violations.items()):
        os.makedirs(vdir, exist_ok=True)
        h = hashlib.sha1(sig.encode()).hexdigest()[:10]
        path = os.path.join(vdir, f"{h}.json")
        json.dump(
            {
                "property": prop,
                "check": f["check"],
                "signature": sig,
                "message": f["message"],
                "details": f.get("details", {}),
                "descriptor": f["descriptor"],
                "seed": seed,
                "tier": tier,
            },
            open(path, "w"),
            indent=1,
            default=str,
        )
        out_lines.append(f"VIOLATION property={prop} replay={path}")
        out_lines.append(f"  signature={sig} :: {f['message'][:300]}")
    for sig, (k, f) in sorted(known_hits.items()):
        out_lines.append(f"KNOWN-FINDING: property={prop} {k['what']} [signature {f['signature']}]")

    # required classes
    missing = []
    if not args.only and not args.replay and hasattr(mod, "required_labels"):
        for lab in mod.required_labels(tier):
            if labels.get(lab, 0) == 0:
                missing.append(lab)

    wall = time.time() - t0
    if not samples and failures:
        samples = [{"check": f["check"], "descriptor": f["descriptor"]} for f in failures[:2]]
    coverage = {
        "evaluations": evaluations,
        "distinct_nontrivial": len(nontrivial),
        "rule": getattr(mod, "RULE", ""),
        "samples": samples if samples else [{"note": "no passing sample recorded"}],
        "class_histogram": dict(sorted(labels.items())),
        "shards": shard_info,
        "excluded_by_signature": excluded,
        "skipped_for_budget": skipped,
        "known_findings_observed": [k["signature"] for k, _ in known_hits.values()],
        "violation_signatures": sorted(violations),
        "oracles": getattr(mod, "ORACLES", []),
    }
    if skipped:
        coverage["inconclusive"] = f"{skipped} generated cases were not evaluated because a shard's time budget ran out"
    if missing:
        coverage["required_classes_not_reached"] = missing
    if hasattr(mod, "merge_extra"):
        coverage.update(mod.merge_extra(extras))
    else:
        for k, v in extras.items():
            coverage[k] = v
    if hasattr(mod, "exhaustive") and not args.only and not args.replay:
        coverage["exhaustive"] = bool(mod.exhaustive(tier)) and not skipped
    sens = os.path.join(HERE, "sensitivity.json")
    if os.path.exists(sens):
        sj = json.load(open(sens)).get(prop)
        if sj:
            coverage["mutations_killed"] = sj
    evidence = {
        "property_id": prop,
        "tier": tier,
        "seed": seed,
        "level": getattr(mod, "LEVEL", "exploration"),
        "coverage": coverage,
        "assumptions": getattr(mod, "ASSUMPTIONS", []),
        "wall_s": round(wall, 2),
        "violations": len(violations),
    }
    if not args.no_evidence and not args.replay and not args.only:
        os.makedirs(os.path.join(HERE, "evidence"), exist_ok=True)
        with open(os.path.join(HERE, "evidence", f"{prop}.json"), "w") as fh:
            json.dump(evidence, fh, indent=1, default=str)

    for line in out_lines:
        print(line)
    print(
        f"[{prop} {tier} seed={seed}] evaluations={evaluations} distinct_nontrivial={len(nontrivial)} "
        f"violations={len(violations)} known={len(known_hits)} excluded={excluded} skipped={skipped} wall={wall:.0f}s"
    )
    if harness_errors:
        for r in harness_errors:
            print("HARNESS-ERROR in shard", r.get("spec", {}).get("check"), file=sys.stderr)
            print(r.get("error", "")[-3000:], file=sys.stderr)
        if violations:
            return 1
        return 2
    if missing and skipped:
        # a time budget ran out before the generator reached these classes: inconclusive for them, not an error and not a violation
        print(f"INCONCLUSIVE: time budget ran out before any case of classes {missing} was evaluated ({skipped} generated cases skipped)")
    elif missing:
        print(f"HARNESS-ERROR: generator produced no case of required classes {missing}", file=sys.stderr)
        return 1 if violations else 2
    return 1 if violations else 0


if __name__ == "__main__":
    main()

"""C14 Operator, grid-function and potential algebra is coherent."""

import numpy as np

from vlib.pbt import Violation
from vlib import meshgen as mg
from vlib import opgen as og

LEVEL = "exploration"
RULE = (
    "Well-typed expression trees (depth <= 4) over a pool of assembled operators (dense real, dense complex, sparse, zero, multiplication; "
    "spaces P1/DP0/DP1 on one grid, P1 on a second grid), discrete operators (dense, sparse, diagonal, rank-one, inverse-sparse, zero), "
    "grid functions (primal and dual representation), potential operators and blocked operators (2x2, 1x2, generalized nested), with "
    "scalars of Python and numpy types; interpreted by a numpy reference model (product = W1 M^+ W2, strong form = M^+ W, application to a "
    "grid function = projections W c). Ill-typed trees (incompatible spaces) must raise. Non-trivial = tree with >= 2 operator nodes of "
    "different kinds or mixed real/complex operands; distinct by normalised tree text."
)
ORACLES = ["numpy interpreter of the same expression tree over the dense leaf matrices", "rejection of space-incompatible operands"]
ASSUMPTIONS = ["leaf matrices are taken from to_dense() once; agreement of to_dense with matvec/matmat on leaves is itself checked"]

TOL = 1e-9
_POOL = {}


def _fail(sig, msg):
    raise Violation("C14/" + sig, msg)


def pool():
    if _POOL:
        return _POOL
    import bempp_cl.api
    from bempp_cl.api.operators.boundary import laplace, helmholtz, sparse
    from bempp_cl.api.assembly.boundary_operator import MultiplicationOperator, ZeroBoundaryOperator

    gA = mg.make_grid({"base": "octa", "edits": [["edge", 3], ["face", 1]], "amp": 0.1, "gseed": 4, "cls": "regular"})
    gB = mg.make_grid({"base": "tetra", "amp": 0.05, "gseed": 1, "trans": [5.0, 0, 0]})
    S = {
        "p": bempp_cl.api.function_space(gA, "P", 1),
        "d": bempp_cl.api.function_space(gA, "DP", 0),
        "q": bempp_cl.api.function_space(gA, "DP", 1),
        "pb": bempp_cl.api.function_space(gB, "P", 1),
        "p2": bempp_cl.api.function_space(gA, "P", 1),  # a second, equal P1 space object (compatible by hash)
    }
    rng = np.random.default_rng(7)
    gfp = bempp_cl.api.GridFunction(S["p"], coefficients=rng.standard_normal(S["p"].global_dof_count))
    k = 1.3 + 0.4j
    L = {}

    def add(name, op, dom, rng_, dtr):
        L[name] = {"op": op, "type": (dom, rng_, dtr)}

    add("Vd", laplace.single_layer(S["d"], S["d"], S["d"]), "d", "d", "d")
    add("Vp", laplace.single_layer(S["p"], S["p"], S["p"]), "p", "p", "p")
    add("Kp", laplace.double_layer(S["p"], S["p"], S["p"]), "p", "p", "p")
    add("Hdp", helmholtz.single_layer(S["d"], S["p"], S["p"], k), "d", "p", "p")
    add("Hpd", helmholtz.double_layer(S["p"], S["d"], S["d"], k), "p", "d", "d")
    add("Hq", helmholtz.single_layer(S["q"], S["q"], S["q"], 0.7), "q", "q", "q")
    add("Ip", sparse.identity(S["p"], S["p"], S["p"]), "p", "p", "p")
    add("Id", sparse.identity(S["d"], S["d"], S["d"]), "d", "d", "d")
    add("Ipd", sparse.identity(S["p"], S["d"], S["d"]), "p", "d", "d")
    add("Ipq", sparse.identity(S["p"], S["q"], S["q"]), "p", "q", "q")
    add("Iqp", sparse.identity(S["q"], S["p"], S["p"]), "q", "p", "p")
    add("Zd", ZeroBoundaryOperator(S["d"], S["d"], S["d"]), "d", "d", "d")
    add("Mp", MultiplicationOperator(gfp, S["p"], S["p"], S["p"]), "p", "p", "p")
    add("Vp2", laplace.single_layer(S["p2"], S["p2"], S["p2"]), "p", "p", "p")
    add("Vb", laplace.single_layer(S["pb"], S["pb"], S["pb"]), "pb", "pb", "pb")
    # range and dual with different dof counts and a full-rank mass matrix (DP1 range, P1 dual)
    add("Vdqp", laplace.single_layer(S["d"], S["q"], S["p"]), "d", "q", "p")
    add("Ipqp", sparse.identity(S["p"], S["q"], S["p"]), "p", "q", "p")
    class _LazyW(dict):
        """Dense weak forms assembled on first use (each costs JIT time)."""

        def __missing__(self, name):
            w = L[name]["op"].weak_form()
            val = np.asarray(w.to_dense()) if _is_dense(w) else np.asarray(w.to_sparse().todense())
            self[name] = val
            return val

    class _LazyM(dict):
        def __missing__(self, key):
            a, b = key
            val = np.asarray(sparse.identity(S[a], S[a], S[b]).weak_form().to_sparse().todense())
            self[key] = val
            return val

    WW = _LazyW()
    for name, ent in L.items():
        ent["name"] = name
    M = _LazyM()
    _POOL.update({"S": S, "L": L, "M": M, "W": WW, "gA": gA, "gB": gB, "k": k})
    return _POOL


def _is_dense(w):
    try:
        w.to_sparse()
        return False
    except Exception:  # noqa: BLE001
        return True


_SCALARS = {
    "2": 2, "-1.5": -1.5, "0.5j": 0.5j, "1+2j": 1 + 2j, "f32": np.float32(1.25), "f64": np.float64(-0.75),
    "c64": np.complex64(0.5 - 1j), "c128": np.complex128(2 - 0.5j), "i0": 0,
}


def _build(tree, P):
    """Return (library object, reference weak matrix, type)."""
    kind = tree[0]
    if kind == "leaf":
        ent = P["L"][tree[1]]
        return ent["op"], P["W"][tree[1]], ent["type"]
    if kind == "scal":
        a = _SCALARS[tree[1]]
        o, W, t = _build(tree[2], P)
        return (a * o if tree[3] == "l" else o * a), complex(a) * W if np.iscomplexobj(a) else float(a) * W, t
    if kind == "neg":
        o, W, t = _build(tree[1], P)
        return -o, -W, t
    if kind in ("add", "sub"):
        o1, W1, t1 = _build(tree[1], P)
        o2, W2, t2 = _build(tree[2], P)
        return (o1 + o2 if kind == "add" else o1 - o2), (W1 + W2 if kind == "add" else W1 - W2), t1
    if kind == "mul":
        o1, W1, t1 = _build(tree[1], P)
        o2, W2, t2 = _build(tree[2], P)
        Minv = np.linalg.pinv(P["M"][(t2[1], t2[2])])
        return o1 * o2, W1 @ Minv @ W2, (t2[0], t1[1], t1[2])
    raise ValueError(kind)


def _text(tree):
    if tree[0] == "leaf":
        return tree[1]
    if tree[0] == "scal":
        return f"({tree[1]}*{_text(tree[2])})" if tree[3] == "l" else f"({_text(tree[2])}*{tree[1]})"
    if tree[0] == "neg":
        return f"(-{_text(tree[1])})"
    sym = {"add": "+", "sub": "-", "mul": "@"}[tree[0]]
    return f"({_text(tree[1])}{sym}{_text(tree[2])})"


def _kinds(tree, acc):
    if tree[0] == "leaf":
        acc.add(tree[1])
    else:
        for t in tree[1:]:
            if isinstance(t, list):
                _kinds(t, acc)
    return acc


def _tree_type(tree, P):
    if tree[0] == "leaf":
        return P["L"][tree[1]]["type"]
    if tree[0] == "scal":
        return _tree_type(tree[2], P)
    if tree[0] == "neg":
        return _tree_type(tree[1], P)
    if tree[0] in ("add", "sub"):
        return _tree_type(tree[1], P)
    t1, t2 = _tree_type(tree[1], P), _tree_type(tree[2], P)
    return (t2[0], t1[1], t1[2])


def check_boundary_tree(desc):
    import bempp_cl.api

    P = pool()
    tree = desc["tree"]
    txt = _text(tree)
    op, W, t = _build(tree, P)
    scale = max(1.0, float(np.max(np.abs(W))))
    wf = op.weak_form()
    n = W.shape[1]
    dense = np.asarray(wf @ np.eye(n))
    if dense.shape != W.shape or np.max(np.abs(dense - W)) > TOL * scale:
        _fail("boundary/weak_form", f"weak form of {txt} differs from the reference interpretation by {np.max(np.abs(dense - W)) / scale:.2e}")
    if hasattr(wf, "to_dense"):
        try:
            td = np.asarray(wf.to_dense())
        except (ValueError, NotImplementedError):
            td = None
        if td is not None and np.max(np.abs(td - W)) > TOL * scale:
            _fail("boundary/to_dense", f"to_dense() of {txt} differs from matvec by {np.max(np.abs(td - W)) / scale:.2e}")
    rng = np.random.default_rng(desc.get("vseed", 0))
    x = rng.standard_normal(n)
    xc = x + 1j * rng.standard_normal(n)
    X = rng.standard_normal((n, 3)) + 1j * rng.standard_normal((n, 3))
    for nm, v in (("real_vec", x), ("complex_vec", xc), ("matmat", X)):
        got = wf @ v
        want = W @ v
        if np.max(np.abs(got - want)) > TOL * scale * max(1.0, np.max(np.abs(v))):
            _fail(f"boundary/{nm}", f"{txt}: weak_form() @ {nm} deviates by {np.max(np.abs(got - want)):.2e}")
    if op.weak_form() is not wf:
        _fail("boundary/weak_form_cached", f"{txt}: repeated weak_form() returned a different object")
    # strong form and application to a grid function
    Minv = np.linalg.pinv(P["M"][(t[1], t[2])])
    sf = op.strong_form()
    got = sf @ xc
    want = Minv @ (W @ xc)
    if np.max(np.abs(got - want)) > 1e-7 * max(1.0, float(np.max(np.abs(want)))):
        _fail("boundary/strong_form", f"{txt}: strong form deviates from M^+ W by {np.max(np.abs(got - want)):.2e}")
    dom = P["S"][t[0]]
    for cvec, nm in ((x, "real"), (xc, "complex")):
        gf = bempp_cl.api.GridFunction(dom, coefficients=cvec)
        res = op * gf
        pr = res.projections()
        want = W @ cvec
        if np.max(np.abs(pr - want)) > TOL * scale * max(1.0, float(np.max(np.abs(cvec)))):
            _fail("boundary/apply_gridfunction", f"{txt} * GridFunction({nm}): projections deviate by {np.max(np.abs(pr - want)):.2e}")
        if not res.space.is_compatible(P["S"][t[1]]):
            _fail("boundary/apply_gridfunction_space", f"{txt} * GridFunction lives in the wrong space")
    kinds = _kinds(tree, set())
    cplx = np.iscomplexobj(W)
    labels = ["boundary_tree", "complex_result" if cplx else "real_result"]
    if "mul" in txt or "@" in txt:
        labels.append("has_product")
    return {"nontrivial": len(kinds) >= 2 or (cplx and len(kinds) >= 1 and tree[0] != "leaf"), "labels": labels}


def check_illtyped(desc):
    import bempp_cl.api

    P = pool()
    L = P["L"]
    a, b, how = desc["a"], desc["b"], desc["how"]
    ta, tb = L[a]["type"], L[b]["type"]
    oa, ob = L[a]["op"], L[b]["op"]
    try:
        if how == "add":
            if ta == tb:
                return {"nontrivial": False, "labels": ["welltyped_skip"]}
            r = oa + ob
        elif how == "sub":
            if ta == tb:
                return {"nontrivial": False, "labels": ["welltyped_skip"]}
            r = oa - ob
        elif how == "mul":
            if ta[0] == tb[1]:
                return {"nontrivial": False, "labels": ["welltyped_skip"]}
            r = oa * ob
        elif how == "apply":
            dom = P["S"][tb[0]]
            if ta[0] == tb[0]:
                return {"nontrivial": False, "labels": ["welltyped_skip"]}
            r = oa * bempp_cl.api.GridFunction(dom, coefficients=np.ones(dom.global_dof_count))
        elif how == "gf_add":
            sa, sb = P["S"][ta[0]], P["S"][tb[0]]
            if ta[0] == tb[0]:
                return {"nontrivial": False, "labels": ["welltyped_skip"]}
            r = bempp_cl.api.GridFunction(sa, coefficients=np.ones(sa.global_dof_count)) + bempp_cl.api.GridFunction(
                sb, coefficients=np.ones(sb.global_dof_count))
        else:
            raise ValueError(how)
        # some constructions are lazy: force evaluation
        if hasattr(r, "weak_form"):
            r.weak_form()
        elif hasattr(r, "coefficients"):
            r.coefficients
    except Exception:  # noqa: BLE001
        return {"nontrivial": True, "labels": ["illtyped_rejected", how]}
    _fail(f"illtyped/{how}", f"combining {a}{ta} with {b}{tb} by '{how}' was not rejected")


def check_discrete(desc):
    """Discrete operator algebra incl. transpose/adjoint vs numpy."""
    from bempp_cl.api.assembly.discrete_boundary_operator import (
        DiagonalOperator, DiscreteRankOneOperator, InverseSparseDiscreteBoundaryOperator, ZeroDiscreteBoundaryOperator)

    P = pool()
    L = P["L"]
    n = P["S"]["p"].global_dof_count
    rng = np.random.default_rng(3)
    dvals = rng.standard_normal(n)
    col, row = rng.standard_normal(n) + 1j * rng.standard_normal(n), rng.standard_normal(n)
    leaves = {
        "Vp": (L["Vp"]["op"].weak_form(), P["W"]["Vp"]),
        "Kp": (L["Kp"]["op"].weak_form(), P["W"]["Kp"]),
        "Ip": (L["Ip"]["op"].weak_form(), P["W"]["Ip"]),
        "Mp": (L["Mp"]["op"].weak_form(), P["W"]["Mp"]),
        "Diag": (DiagonalOperator(dvals), np.diag(dvals)),
        "R1": (DiscreteRankOneOperator(col, row), np.outer(col, row)),
        "InvI": (InverseSparseDiscreteBoundaryOperator(L["Ip"]["op"].weak_form()), np.linalg.inv(P["W"]["Ip"])),
        "Zero": (ZeroDiscreteBoundaryOperator(n, n), np.zeros((n, n))),
    }

    def build(t):
        if t[0] == "leaf":
            return leaves[t[1]]
        if t[0] == "scal":
            a = _SCALARS[t[1]]
            o, W = build(t[2])
            return (a * o if t[3] == "l" else o * a), a * W
        if t[0] == "neg":
            o, W = build(t[1])
            return -o, -W
        if t[0] == "T":
            o, W = build(t[1])
            return o.T, W.T
        if t[0] == "H":
            o, W = build(t[1])
            return o.H, W.conj().T
        o1, W1 = build(t[1])
        o2, W2 = build(t[2])
        if t[0] == "add":
            return o1 + o2, W1 + W2
        if t[0] == "sub":
            return o1 - o2, W1 - W2
        return o1 * o2, W1 @ W2

    tree = desc["tree"]
    try:
        o, W = build(tree)
    except NotImplementedError:
        # scipy LinearOperator cannot transpose/adjoint every lazily composed operator: allowed ("correct if they return")
        return {"nontrivial": False, "labels": ["transpose_not_implemented"]}
    scale = max(1.0, float(np.max(np.abs(W))))
    x = rng.standard_normal(n) + 1j * rng.standard_normal(n)
    xr = rng.standard_normal(n)
    txt = str(tree)
    try:
        got = o @ x
        gotr = o @ xr
        gotm = o @ np.stack([x, xr], axis=1)
    except NotImplementedError:
        return {"nontrivial": False, "labels": ["transpose_not_implemented"]}
    if np.max(np.abs(got - W @ x)) > TOL * scale * 10:
        _fail("discrete/matvec_complex", f"{txt}: deviates by {np.max(np.abs(got - W @ x)):.2e}")
    if np.max(np.abs(gotr - W @ xr)) > TOL * scale * 10:
        _fail("discrete/matvec_real", f"{txt}: deviates by {np.max(np.abs(gotr - W @ xr)):.2e}")
    if np.max(np.abs(gotm - W @ np.stack([x, xr], axis=1))) > TOL * scale * 10:
        _fail("discrete/matmat", f"{txt}: deviates by {np.max(np.abs(gotm - W @ np.stack([x, xr], axis=1))):.2e}")
    if hasattr(o, "to_dense"):
        try:
            td = np.asarray(o.to_dense())
        except (ValueError, NotImplementedError):
            td = None
        if td is not None and np.max(np.abs(td - W)) > TOL * scale * 10:
            _fail("discrete/to_dense", f"{txt}: to_dense deviates by {np.max(np.abs(td - W)):.2e}")
    return {"nontrivial": tree[0] != "leaf", "labels": ["discrete_tree"]}


def check_gridfunctions(desc):
    import bempp_cl.api

    P = pool()
    sp = P["S"][desc["space"]]
    dual = P["S"][desc["dual"]]
    M = P["M"][(desc["space"], desc["dual"])]  # rows dual, cols space
    n = sp.global_dof_count
    rng = np.random.default_rng(desc["seed"])

    alt_duals = {"p": ["p", "q"], "d": ["d", "q"], "q": ["q"]}[desc["space"]]

    def leaf(rep, cplx, alt=False):
        c = rng.standard_normal(n) + (1j * rng.standard_normal(n) if cplx else 0)
        dk = desc["dual"]
        if alt:
            # a function of the same space given through projections onto a *different* dual space
            others = [a for a in alt_duals if a != dk]
            dk = others[0] if others else dk
        dl, Ml = P["S"][dk], P["M"][(desc["space"], dk)]
        if rep == "primal":
            return bempp_cl.api.GridFunction(sp, coefficients=c, dual_space=dl), c
        return bempp_cl.api.GridFunction(sp, projections=Ml @ c, dual_space=dl), c

    def build(t):
        if t[0] == "leaf":
            return leaf(t[1], t[2], bool(t[3]) if len(t) > 3 else False)
        if t[0] == "scal":
            a = _SCALARS[t[1]]
            g, c = build(t[2])
            return (a * g if t[3] == "l" else g * a), a * c
        if t[0] == "div":
            a = _SCALARS[t[1]]
            g, c = build(t[2])
            return g / a, c / a
        if t[0] == "neg":
            g, c = build(t[1])
            return -g, -c
        if t[0] == "real":
            g, c = build(t[1])
            return g.real, np.real(c)
        if t[0] == "imag":
            g, c = build(t[1])
            return g.imag, np.imag(c)
        g1, c1 = build(t[1])
        g2, c2 = build(t[2])
        return (g1 + g2, c1 + c2) if t[0] == "add" else (g1 - g2, c1 - c2)

    g, c = build(desc["tree"])
    got = g.coefficients
    scale = max(1.0, float(np.max(np.abs(c))))
    cond = np.linalg.cond(M) if M.shape[0] == M.shape[1] else 1e3
    # division by a single-precision numpy scalar is carried out as multiplication with its (single-precision) reciprocal
    single = any(t in str(desc["tree"]) for t in ("'f32'", "'c64'")) and "'div'" in str(desc["tree"])
    gtol = 1e-6 if single else 1e-10
    if np.max(np.abs(got - c)) > gtol * scale * max(cond, 10):
        _fail("gridfunction/coefficients", f"{desc['tree']}: coefficients deviate by {np.max(np.abs(got - c)):.2e}")
    pr = g.projections(dual)
    if np.max(np.abs(pr - M @ c)) > gtol * scale * max(1.0, float(np.max(np.abs(M)))) * 10:
        _fail("gridfunction/projections", f"{desc['tree']}: projections deviate by {np.max(np.abs(pr - M @ c)):.2e}")
    labels = ["gridfunction_tree", "mixed_rep" if "dual" in str(desc["tree"]) and "primal" in str(desc["tree"]) else "single_rep"]
    def _mixed(t):
        if t[0] in ("add", "sub") and t[1][0] == "leaf" and t[2][0] == "leaf":
            if t[1][1] == "dual" and t[2][1] == "dual" and bool(t[1][3] if len(t[1]) > 3 else False) != bool(t[2][3] if len(t[2]) > 3 else False):
                return True
        return any(_mixed(x) for x in t[1:] if isinstance(x, list) and x and isinstance(x[0], str) and x[0] != "leaf")
    if len(alt_duals) > 1 and _mixed(desc["tree"]):
        labels.append("sum_of_projections_onto_different_duals")
    return {"nontrivial": desc["tree"][0] != "leaf", "labels": labels}


def check_potentials(desc):
    import bempp_cl.api
    from bempp_cl.api.operators.potential import laplace as pl, helmholtz as ph

    P = pool()
    sp = P["S"][desc["space"]]
    X = np.asfortranarray(np.array([[3.0, 0.2, 0.1], [0.0, -2.5, 0.4], [1.5, 1.5, 2.0]]).T)
    X2 = np.asfortranarray(np.array([[3.0, 0.2, 0.1], [0.0, -2.5, 0.4]]).T)
    pots = {
        "S": pl.single_layer(sp, X), "D": pl.double_layer(sp, X) if desc["space"] != "d" else pl.single_layer(sp, X),
        "HS": ph.single_layer(sp, X, 1.1), "S2": pl.single_layer(sp, X2),
        "Sother": pl.single_layer(P["S"]["q" if desc["space"] != "q" else "p"], X),
    }
    rng = np.random.default_rng(desc["seed"])
    c = rng.standard_normal(sp.global_dof_count) + (1j * rng.standard_normal(sp.global_dof_count) if desc["complex"] else 0)
    gf = bempp_cl.api.GridFunction(sp, coefficients=c)
    vals = {k: v.evaluate(gf) for k, v in pots.items() if k in ("S", "D", "HS")}
    how = desc["how"]
    a = _SCALARS[desc["alpha"]]
    ill = False
    try:
        if how == "add":
            r, want = pots["S"] + pots["HS"], vals["S"] + vals["HS"]
        elif how == "sub":
            r, want = pots["S"] - pots["D"], vals["S"] - vals["D"]
        elif how == "scale":
            r, want = a * pots["HS"], a * vals["HS"]
        elif how == "rscale":
            r, want = pots["D"] * a, vals["D"] * a
        elif how == "neg":
            r, want = -pots["S"], -vals["S"]
        elif how == "lincomb":
            r, want = a * pots["S"] + pots["D"] * 2 - pots["HS"], a * vals["S"] + 2 * vals["D"] - vals["HS"]
        elif how == "matmul":
            r, want = None, vals["S"]
            got = pots["S"] * gf
        elif how == "ill_points":
            ill = True
            r = pots["S"] + pots["S2"]
        elif how == "ill_space":
            ill = True
            r = pots["S"] + pots["Sother"]
        if ill:
            r.evaluate(gf)
    except Exception as exc:  # noqa: BLE001
        if ill:
            return {"nontrivial": True, "labels": ["potential_illtyped_rejected"]}
        from vlib.pbt import crash_signature
        _fail(f"potential/{how}/raises", f"documented potential-operator combination '{how}' raised {type(exc).__name__}: {exc} [{crash_signature(exc)}]")
    if ill:
        _fail(f"potential/{how}", "combining potential operators with different evaluation points / spaces was not rejected")
    if r is not None:
        got = r.evaluate(gf)
        if not r.space.is_compatible(sp) or r.component_count != 1 or np.max(np.abs(r.evaluation_points - X)) != 0:
            _fail(f"potential/{how}/attributes", "space / component_count / evaluation_points of the combined potential operator are wrong")
    if np.max(np.abs(got - want)) > 1e-11 * max(1.0, float(np.max(np.abs(want)))):
        _fail(f"potential/{how}", f"combined potential deviates by {np.max(np.abs(got - want)):.2e}")
    return {"nontrivial": True, "labels": ["potential_algebra", how]}


def check_blocked(desc):
    import bempp_cl.api
    from bempp_cl.api.assembly.blocked_operator import BlockedOperator, GeneralizedBlockedOperator

    P = pool()
    L = P["L"]
    lay = desc["layout"]  # list of rows of leaf names or None
    m, n = len(lay), len(lay[0])
    B = BlockedOperator(m, n)
    blocks = [[None] * n for _ in range(m)]
    for i in range(m):
        for j in range(n):
            if lay[i][j] is not None:
                B[i, j] = L[lay[i][j]]["op"]
                blocks[i][j] = P["W"][lay[i][j]]
    doms = [P["S"][t] for t in desc["dom_types"]]
    rngs = [P["S"][t] for t in desc["rng_types"]]
    duals = [P["S"][t] for t in desc["dual_types"]]
    for i in range(m):
        for j in range(n):
            if blocks[i][j] is None:
                blocks[i][j] = np.zeros((duals[i].global_dof_count, doms[j].global_dof_count))
    W = np.block(blocks)
    a = _SCALARS[desc["alpha"]]
    how = desc["how"]
    if how == "plain":
        op, R = B, W
    elif how == "scaled":
        op, R = a * B, a * W
    elif how == "sum":
        op, R = B + B * a, W + a * W
    elif how == "neg_sub":
        op, R = (-B) - B, -2 * W
    elif how == "generalized":
        op, R = GeneralizedBlockedOperator([[B]]), W
    elif how == "generalized_nested":
        rows = [[L[lay[i][j]]["op"] if lay[i][j] is not None else bempp_cl.api.ZeroBoundaryOperator(doms[j], rngs[i], duals[i]) for j in range(n)] for i in range(m)]
        op, R = GeneralizedBlockedOperator(rows), W
    wf = op.weak_form()
    N = R.shape[1]
    rg = np.random.default_rng(desc["seed"])
    x = rg.standard_normal(N) + (1j * rg.standard_normal(N) if desc["complex"] else 0)
    scale = max(1.0, float(np.max(np.abs(R))))
    if np.max(np.abs(wf @ x - R @ x)) > TOL * scale * 10:
        _fail(f"blocked/{how}/matvec", f"layout {lay}: deviates by {np.max(np.abs(wf @ x - R @ x)):.2e}")
    td = np.asarray(wf.to_dense())
    if td.shape != R.shape or np.max(np.abs(td - R)) > TOL * scale:
        _fail(f"blocked/{how}/to_dense", f"layout {lay}: to_dense deviates")
    X = np.stack([x, np.conj(x)], axis=1)
    if np.max(np.abs(wf @ X - R @ X)) > TOL * scale * 10:
        _fail(f"blocked/{how}/matmat", f"layout {lay}: matmat deviates")
    # application to a list of grid functions -> projections of the image, per block row
    gfs = []
    pos = 0
    for s in doms:
        gfs.append(bempp_cl.api.GridFunction(s, coefficients=x[pos: pos + s.global_dof_count]))
        pos += s.global_dof_count
    res = op * gfs
    want = R @ x
    pos = 0
    if len(res) != m:
        _fail(f"blocked/{how}/apply_len", f"{len(res)} results for {m} block rows")
    for i, r in enumerate(res):
        nd = duals[i].global_dof_count
        pr = r.projections()
        if len(pr) != nd or np.max(np.abs(pr - want[pos: pos + nd])) > TOL * scale * 10:
            _fail(f"blocked/apply_gridfunctions", f"layout {lay} ({how}): result {i} has projections of length {len(pr)} (dual space has {nd} dofs)"
                  f"{'' if len(pr) != nd else ', deviating by %.2e' % np.max(np.abs(pr - want[pos: pos + nd]))}")
        if not r.space.is_compatible(rngs[i]):
            _fail("blocked/apply_space", f"result {i} lives in the wrong space")
        pos += nd
    if op.weak_form() is not wf:
        _fail("blocked/weak_form_cached", "repeated weak_form() returned a different object")
    labels = ["blocked", how]
    if any(duals[i].global_dof_count != rngs[i].global_dof_count for i in range(m)):
        labels.append("range_dual_dofs_differ")
    return {"nontrivial": True, "labels": labels}


CHECKS = {"boundary_tree": check_boundary_tree, "illtyped": check_illtyped, "discrete": check_discrete,
          "gridfunctions": check_gridfunctions, "potentials": check_potentials, "blocked": check_blocked}


def setup(spec):
    pool()


def shards(tier, seed=1):
    n = 1 if tier == "quick" else 10
    return [
        {"check": "boundary_tree", "examples": 120 * n, "budget_s": 360 * n, "rep": 0},
        {"check": "illtyped", "examples": 120 * n, "budget_s": 100 * n},
        {"check": "discrete", "examples": 300 * n, "budget_s": 200 * n},
        {"check": "gridfunctions", "examples": 200 * n, "budget_s": 150 * n},
        {"check": "potentials", "examples": 60 * n, "budget_s": 200 * n},
        {"check": "blocked", "examples": 60 * n, "budget_s": 300 * n},
    ] + ([{"check": "boundary_tree", "examples": 1200, "budget_s": 3000, "rep": 1}] if tier != "quick" else [])


_TYPES = {
    "Vd": ("d", "d", "d"), "Vp": ("p", "p", "p"), "Kp": ("p", "p", "p"), "Hdp": ("d", "p", "p"), "Hpd": ("p", "d", "d"),
    "Hq": ("q", "q", "q"), "Ip": ("p", "p", "p"), "Id": ("d", "d", "d"), "Ipd": ("p", "d", "d"), "Ipq": ("p", "q", "q"),
    "Iqp": ("q", "p", "p"), "Zd": ("d", "d", "d"), "Mp": ("p", "p", "p"), "Vp2": ("p", "p", "p"), "Vb": ("pb", "pb", "pb"), "Vdqp": ("d", "q", "p"), "Ipqp": ("p", "q", "p"),
}


def strategy(spec):
    from hypothesis import strategies as st

    c = spec["check"]
    scal = st.sampled_from(sorted(_SCALARS))
    if c == "boundary_tree":
        # typed generation: type = (dom, rng, dtr)
        by_type = {}
        for nme, t in _TYPES.items():
            by_type.setdefault(t, []).append(nme)
        by_range = {}
        for t in by_type:
            by_range.setdefault(t[0], []).append(t)

        def tree_of(t, depth):
            leaves = st.sampled_from(by_type[t]).map(lambda nme: ["leaf", nme]) if t in by_type else None
            if depth == 0:
                return leaves
            sub = st.deferred(lambda: tree_of(t, depth - 1))
            opts = []
            if leaves is not None:
                opts.append(leaves)
            opts.append(st.tuples(scal, sub, st.sampled_from(["l", "r"])).map(lambda x: ["scal", x[0], x[1], x[2]]))
            opts.append(sub.map(lambda x: ["neg", x]))
            opts.append(st.tuples(sub, sub).map(lambda x: ["add", x[0], x[1]]))
            opts.append(st.tuples(sub, sub).map(lambda x: ["sub", x[0], x[1]]))
            # products: t = (dom, rng, dtr) = op1 (mid -> rng, dtr) * op2 (dom -> mid): need types (mid, rng, dtr) and (dom, mid, *)
            for t1 in by_type:
                if t1[1] == t[1] and t1[2] == t[2]:
                    for t2 in by_type:
                        if t2[0] == t[0] and t2[1] == t1[0]:
                            opts.append(st.tuples(st.deferred(lambda t1=t1: tree_of(t1, depth - 1)), st.deferred(lambda t2=t2: tree_of(t2, depth - 1))).map(
                                lambda x: ["mul", x[0], x[1]]))
            return st.one_of(opts)

        @st.composite
        def s(draw):
            t = draw(st.sampled_from(sorted(by_type)))
            return {"tree": draw(tree_of(t, draw(st.integers(1, 3)))), "vseed": draw(st.integers(0, 99))}
        return s()
    if c == "illtyped":
        names = sorted(_TYPES)
        return st.fixed_dictionaries({"a": st.sampled_from(names), "b": st.sampled_from(names),
                                      "how": st.sampled_from(["add", "sub", "mul", "apply", "gf_add"])})
    if c == "discrete":
        leaves = st.sampled_from(["Vp", "Kp", "Ip", "Mp", "Diag", "R1", "InvI", "Zero"]).map(lambda nme: ["leaf", nme])
        tree = st.recursive(
            leaves,
            lambda ch: st.one_of(
                st.tuples(scal, ch, st.sampled_from(["l", "r"])).map(lambda x: ["scal", x[0], x[1], x[2]]),
                ch.map(lambda x: ["neg", x]), ch.map(lambda x: ["T", x]), ch.map(lambda x: ["H", x]),
                st.tuples(ch, ch).map(lambda x: ["add", x[0], x[1]]), st.tuples(ch, ch).map(lambda x: ["sub", x[0], x[1]]),
                st.tuples(ch, ch).map(lambda x: ["mul", x[0], x[1]])),
            max_leaves=6)
        return st.fixed_dictionaries({"tree": tree})
    if c == "gridfunctions":
        leaves = st.tuples(st.sampled_from(["primal", "dual", "dual"]), st.booleans(), st.sampled_from([False, False, True])).map(lambda x: ["leaf", x[0], x[1], x[2]])
        nz = st.sampled_from([k for k in sorted(_SCALARS) if k != "i0"])
        tree = st.recursive(
            leaves,
            lambda ch: st.one_of(
                st.tuples(scal, ch, st.sampled_from(["l", "r"])).map(lambda x: ["scal", x[0], x[1], x[2]]),
                st.tuples(nz, ch).map(lambda x: ["div", x[0], x[1]]),
                ch.map(lambda x: ["neg", x]), ch.map(lambda x: ["real", x]), ch.map(lambda x: ["imag", x]),
                st.tuples(ch, ch).map(lambda x: ["add", x[0], x[1]]), st.tuples(ch, ch).map(lambda x: ["sub", x[0], x[1]]),
                # sums of two leaves directly (both may still be in projection representation, possibly w.r.t. different dual spaces)
                st.tuples(st.sampled_from(["add", "sub"]), leaves, leaves).map(lambda x: [x[0], x[1], x[2]])),
            max_leaves=5)
        return st.fixed_dictionaries({"tree": tree, "space": st.sampled_from(["p", "d", "q"]), "dual": st.sampled_from(["p", "d", "q"]),
                                      "seed": st.integers(0, 999)}).filter(lambda d: (d["space"], d["dual"]) not in (("p", "d"), ("d", "p"), ("q", "p"), ("q", "d")))
    if c == "potentials":
        return st.fixed_dictionaries({"space": st.sampled_from(["p", "d", "q"]), "seed": st.integers(0, 99), "complex": st.booleans(),
                                      "alpha": scal, "how": st.sampled_from(["add", "sub", "scale", "rscale", "neg", "lincomb", "matmul", "ill_points", "ill_space"])})
    # blocked layouts: rows share (rng, dtr), columns share dom
    layouts = [
        ([["Vp", "Hdp"], ["Hpd", "Vd"]], ["p", "d"], ["p", "d"], ["p", "d"]),
        ([["Kp", None], [None, "Id"]], ["p", "d"], ["p", "d"], ["p", "d"]),
        ([["Vp", "Hdp"]], ["p", "d"], ["p"], ["p"]),
        ([["Ipq", None], ["Vp", "Iqp"]], ["p", "q"], ["q", "p"], ["q", "p"]),
        ([["Ipd", "Vd"], ["Kp", "Hdp"]], ["p", "d"], ["d", "p"], ["d", "p"]),
        ([["Vp"], ["Hpd"]], ["p"], ["p", "d"], ["p", "d"]),
        ([["Vdqp"]], ["d"], ["q"], ["p"]),
        ([["Vdqp", "Ipqp"], ["Vd", "Ipd"]], ["d", "p"], ["q", "d"], ["p", "d"]),
    ]

    @st.composite
    def s(draw):
        lay, dom, rng_, dual = draw(st.sampled_from(layouts))
        return {"layout": lay, "dom_types": dom, "rng_types": rng_, "dual_types": dual, "alpha": draw(scal), "seed": draw(st.integers(0, 99)),
                "complex": draw(st.booleans()), "how": draw(st.sampled_from(["plain", "scaled", "sum", "neg_sub", "generalized", "generalized_nested"]))}
    return s()


def required_labels(tier):
    return ["boundary_tree", "has_product", "complex_result", "illtyped_rejected", "discrete_tree", "gridfunction_tree", "potential_algebra", "blocked"]

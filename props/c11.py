"""C11 Grid topology and geometry data are complete and consistent."""

import math

import numpy as np

from vlib.pbt import Violation
from vlib import meshgen as mg

LEVEL = "exploration"
RULE = (
    "Triangle soups from a descriptor (base complex, topological edits, displacement, motion, relabelling, dtype/order); "
    "exhaustive sweep over every non-empty sub-complex of tetrahedron (15), octahedron (255), cube (4095), 2x2 sheet (255) "
    "[thorough adds prism-with-fin (1023), 3x2 sheet (4095) and a seeded sample of icosahedron sub-complexes]; "
    "Hypothesis for everything else (closed, open, non-manifold multitrace, multi-component, genus 1). "
    "Every Grid table is compared with a brute-force set/dict model; refine, barycentric refinement, union, "
    "grid_from_segments and map_to_point_cloud are checked geometrically. Non-trivial = soup with >= 2 elements; "
    "distinct by descriptor hash."
)
ORACLES = ["brute-force topology model (sets/dicts)", "geometry from definitions in numpy", "geometric parent location for nesting"]
ASSUMPTIONS = ["elements with repeated vertices, zero-area elements and duplicate elements are outside Grid's domain and not generated"]

_EDGE_LOCAL = [(0, 1), (2, 0), (1, 2)]  # documented by Grid.refine (vertex01, vertex20, vertex12)
TOL = 1e-11


def _cast(m, desc):
    dt = desc.get("dtype") or {}
    v = m["vertices"].astype(dt.get("v", "float64"))
    e = m["elements"].astype(dt.get("e", "uint32"))
    d = m["domains"].astype(dt.get("d", "uint32"))
    if dt.get("order", "C") == "F":
        v = np.asfortranarray(v)
        e = np.asfortranarray(e)
    return v, e, d


def _grid(desc):
    import bempp_cl.api

    m = mg.build(desc)
    v, e, d = _cast(m, desc)
    if desc.get("nodomains"):
        g = bempp_cl.api.Grid(v, e)
        d = np.zeros(e.shape[1], dtype="uint32")
    else:
        g = bempp_cl.api.Grid(v, e, d)
    return g, v.astype("float64"), e.astype("int64"), d.astype("int64"), m


def _fail(sig, msg):
    raise Violation("C11/" + sig, msg)


def check_tables(desc):
    g, V, E, D, m = _grid(desc)
    ne = E.shape[1]
    nv = V.shape[1]
    if g.number_of_elements != ne or g.number_of_vertices != nv:
        _fail("counts", f"elements {g.number_of_elements}/{ne} vertices {g.number_of_vertices}/{nv}")
    if not (np.array_equal(g.vertices, V) and np.array_equal(g.elements, E) and np.array_equal(g.domain_indices, D)):
        _fail("input_arrays", "vertices/elements/domain_indices differ from the input")
    topo = mg.topology(E)
    model_edges = topo["edges"]
    # 1. each undirected edge exactly once
    ge = np.asarray(g.edges)
    if ge.shape != (2, len(model_edges)) or g.number_of_edges != len(model_edges):
        _fail("edges/count", f"grid lists {ge.shape} edges, model has {len(model_edges)}")
    seen = {}
    for j in range(ge.shape[1]):
        a, b = int(ge[0, j]), int(ge[1, j])
        k = (min(a, b), max(a, b))
        if a == b or k in seen:
            _fail("edges/duplicate", f"edge {k} listed twice or degenerate")
        seen[k] = j
    if set(seen) != set(model_edges):
        _fail("edges/set", "edge set differs from the set of element sides")
    # 2. element_edges with the local convention
    ee = np.asarray(g.element_edges)
    if ee.shape != (3, ne):
        _fail("element_edges/shape", str(ee.shape))
    for t in range(ne):
        for i, (a, b) in enumerate(_EDGE_LOCAL):
            k = (min(int(E[a, t]), int(E[b, t])), max(int(E[a, t]), int(E[b, t])))
            if seen[k] != int(ee[i, t]):
                _fail("element_edges/convention", f"element {t} local edge {i}: grid says edge {int(ee[i, t])}, vertices {k} are edge {seen[k]}")
    # 3. edge neighbours
    en = g.edge_neighbors
    if len(en) != len(model_edges):
        _fail("edge_neighbors/len", f"{len(en)}")
    for k, j in seen.items():
        if sorted(int(x) for x in en[j]) != sorted(model_edges[k]) or len(en[j]) != len(model_edges[k]):
            _fail("edge_neighbors/content", f"edge {k}: {en[j]} vs {model_edges[k]}")
    # 4. vertex neighbours
    vn = g.vertex_neighbors
    for vtx in range(nv):
        got = sorted(int(x) for x in vn.indices[vn.indexptr[vtx]: vn.indexptr[vtx + 1]])
        want = sorted(topo["vert_elems"].get(vtx, set()))
        if got != want:
            _fail("vertex_neighbors", f"vertex {vtx}: {got} vs {want}")
    # 5. element neighbours (vertex sharing, including self)
    shared = {}
    for vtx, ts in topo["vert_elems"].items():
        for a in ts:
            for b in ts:
                shared.setdefault((a, b), set()).add(vtx)
    eln = g.element_neighbors
    for t in range(ne):
        got = sorted(int(x) for x in eln.indices[eln.indexptr[t]: eln.indexptr[t + 1]])
        want = sorted(b for (a, b) in shared if a == t)
        if got != want:
            _fail("element_neighbors", f"element {t}: {got} vs {want}")
    e2e = g.element_to_element_matrix.toarray()
    for (a, b), vs in shared.items():
        if int(e2e[a, b]) != len(vs):
            _fail("element_to_element_matrix", f"({a},{b}) = {e2e[a, b]} vs {len(vs)}")
    if int(np.count_nonzero(e2e)) != len(shared):
        _fail("element_to_element_matrix", "extra non-zeros")
    # 6. edge adjacency
    ea = np.asarray(g.edge_adjacency)
    want_pairs = {(a, b) for (a, b), vs in shared.items() if a != b and len(vs) == 2}
    got_pairs = set()
    if ea.shape[0] != 6:
        _fail("edge_adjacency/shape", str(ea.shape))
    for j in range(ea.shape[1]):
        a, b, a0, a1, b0, b1 = (int(x) for x in ea[:, j])
        if (a, b) in got_pairs:
            _fail("edge_adjacency/duplicate", f"pair {(a, b)} twice")
        got_pairs.add((a, b))
        if a0 == a1 or b0 == b1 or not (0 <= a0 < 3 and 0 <= a1 < 3 and 0 <= b0 < 3 and 0 <= b1 < 3):
            _fail("edge_adjacency/local", f"pair {(a, b)} local indices {(a0, a1, b0, b1)}")
        if E[a0, a] != E[b0, b] or E[a1, a] != E[b1, b]:
            _fail("edge_adjacency/local", f"pair {(a, b)}: local indices {(a0, a1)}/{(b0, b1)} do not address the same vertices")
    if got_pairs != want_pairs:
        _fail("edge_adjacency/pairs", f"missing {sorted(want_pairs - got_pairs)[:4]} extra {sorted(got_pairs - want_pairs)[:4]}")
    # 7. vertex adjacency
    va = np.asarray(g.vertex_adjacency)
    want_pairs = {(a, b) for (a, b), vs in shared.items() if a != b and len(vs) == 1}
    got_pairs = set()
    if va.shape[0] != 4:
        _fail("vertex_adjacency/shape", str(va.shape))
    for j in range(va.shape[1]):
        a, b, i0, i1 = (int(x) for x in va[:, j])
        if (a, b) in got_pairs:
            _fail("vertex_adjacency/duplicate", f"pair {(a, b)} twice")
        got_pairs.add((a, b))
        if not (0 <= i0 < 3 and 0 <= i1 < 3) or E[i0, a] != E[i1, b]:
            _fail("vertex_adjacency/local", f"pair {(a, b)}: local indices {(i0, i1)} do not address the same vertex")
    if got_pairs != want_pairs:
        _fail("vertex_adjacency/pairs", f"missing {sorted(want_pairs - got_pairs)[:4]} extra {sorted(got_pairs - want_pairs)[:4]}")
    # 8. boundary flags
    eb = np.asarray(g.edge_on_boundary)
    for k, j in seen.items():
        if bool(eb[j]) != (len(model_edges[k]) == 1):
            _fail("edge_on_boundary", f"edge {k} with {len(model_edges[k])} neighbours flagged {bool(eb[j])}")
    vb = np.asarray(g.vertex_on_boundary)
    for vtx in range(nv):
        if bool(vb[vtx]) != (vtx in topo["boundary_verts"]):
            _fail("vertex_on_boundary", f"vertex {vtx} flagged {bool(vb[vtx])}")
    for codim, cnt in ((0, ne), (1, len(model_edges)), (2, nv)):
        if g.entity_count(codim) != cnt:
            _fail("entity_count", f"codim {codim}")
    # 9. geometry
    p0, p1, p2 = V[:, E[0]], V[:, E[1]], V[:, E[2]]
    e1, e2 = p1 - p0, p2 - p0
    cr = np.cross(e1.T, e2.T)
    nrm = np.linalg.norm(cr, axis=1)
    scale = float(np.max(np.abs(V))) + 1e-300
    h = np.sqrt(np.max(nrm))
    nors = np.asarray(g.normals)
    if nors.shape != (ne, 3) or np.max(np.abs(np.linalg.norm(nors, axis=1) - 1)) > 1e-12:
        _fail("normals/unit", "normals are not unit vectors")
    if np.max(np.abs(nors - cr / nrm[:, None])) > 1e-9:
        _fail("normals/righthanded", "normal differs from (v1-v0)x(v2-v0) normalised")
    rel = lambda a, b: np.max(np.abs(a - b) / (np.abs(b) + 1e-300))  # noqa: E731
    if rel(np.asarray(g.volumes), 0.5 * nrm) > 1e-9:
        _fail("volumes", "volumes != area")
    if rel(np.asarray(g.integration_elements), nrm) > 1e-9:
        _fail("integration_elements", "integration element != 2 area")
    if np.max(np.abs(np.asarray(g.centroids) - ((p0 + p1 + p2) / 3).T)) > 1e-12 * scale:
        _fail("centroids", "centroid mismatch")
    a_, b_, c_ = np.linalg.norm(e1, axis=0), np.linalg.norm(e2, axis=0), np.linalg.norm(p2 - p1, axis=0)
    if rel(np.asarray(g.diameters), a_ * b_ * c_ / nrm) > 1e-9:
        _fail("diameters", "diameter != circumdiameter abc/(2A)")
    if abs(g.maximum_element_diameter - np.max(g.diameters)) > 0 or abs(g.minimum_element_diameter - np.min(g.diameters)) > 0:
        _fail("diameters/minmax", "max/min element diameter")
    J = np.asarray(g.jacobians)
    if J.shape != (ne, 3, 2) or np.max(np.abs(J[:, :, 0] - e1.T)) > 1e-13 * scale or np.max(np.abs(J[:, :, 1] - e2.T)) > 1e-13 * scale:
        _fail("jacobians", "jacobian columns != edge vectors")
    JIT = np.asarray(g.jacobian_inverse_transposed)
    for t in range(ne):
        want = np.linalg.pinv(J[t]).T
        if np.max(np.abs(JIT[t] - want)) > 1e-8 * np.max(np.abs(want)):
            _fail("jacobian_inverse_transposed", f"element {t}")
    bb = g.bounding_box
    if not (np.array_equal(bb[:, 0], V.min(axis=1)) and np.array_equal(bb[:, 1], V.max(axis=1))):
        _fail("bounding_box", "bounding box")
    # data objects
    gd = g.data("double")
    if not (np.array_equal(gd.elements, E) and np.array_equal(gd.vertices, V) and np.array_equal(gd.domain_indices, D)
            and np.array_equal(gd.normals, nors) and np.array_equal(gd.integration_elements, g.integration_elements)):
        _fail("data/double", "GridData arrays differ from Grid properties")
    gs = g.data("single")
    if gs.vertices.dtype != np.float32 or np.max(np.abs(gs.normals - nors)) > 1e-6 or not np.array_equal(gs.elements, E):
        _fail("data/single", "single-precision GridData inconsistent")
    topo_cls = []
    maxnb = max(len(t) for t in model_edges.values())
    topo_cls.append("nonmanifold_edge" if maxnb > 2 else ("closed" if not topo["boundary_edges"] else "open"))
    labs = ["tables", desc.get("base", "?")] + topo_cls
    if desc.get("dtype"):
        labs.append("dtype_variant")
    if desc.get("relabel") is not None:
        labs.append("relabelled")
    return {"nontrivial": ne >= 2, "labels": labs}


def _locate_parent(Vc, Ec, point, normal):
    """Indices of coarse elements that contain `point` (within tolerance) and are coplanar with it."""
    p0 = Vc[:, Ec[0]].T
    e1 = Vc[:, Ec[1]].T - p0
    e2 = Vc[:, Ec[2]].T - p0
    d = point[None, :] - p0
    n = np.cross(e1, e2)
    nn = np.linalg.norm(n, axis=1)
    dist = np.abs(np.einsum("ij,ij->i", d, n)) / nn
    # barycentric coordinates by least squares
    a11 = np.einsum("ij,ij->i", e1, e1)
    a12 = np.einsum("ij,ij->i", e1, e2)
    a22 = np.einsum("ij,ij->i", e2, e2)
    b1 = np.einsum("ij,ij->i", d, e1)
    b2 = np.einsum("ij,ij->i", d, e2)
    det = a11 * a22 - a12 * a12
    s = (a22 * b1 - a12 * b2) / det
    t = (a11 * b2 - a12 * b1) / det
    h = np.sqrt(nn)
    inside = (s > 1e-9) & (t > 1e-9) & (s + t < 1 - 1e-9) & (dist < 1e-9 * h)
    if normal is not None:
        inside &= (n @ normal) / nn > 0.999999
    return np.flatnonzero(inside)


def _areas(V, E):
    return 0.5 * np.linalg.norm(np.cross((V[:, E[1]] - V[:, E[0]]).T, (V[:, E[2]] - V[:, E[0]]).T), axis=1)


def _normals(V, E):
    c = np.cross((V[:, E[1]] - V[:, E[0]]).T, (V[:, E[2]] - V[:, E[0]]).T)
    return c / np.linalg.norm(c, axis=1)[:, None]


def _check_children(tag, g, fine, nchild, ordered):
    V, E, D = g.vertices, g.elements.astype(int), g.domain_indices
    Vf, Ef, Df = fine.vertices, fine.elements.astype(int), fine.domain_indices
    ne = E.shape[1]
    if Ef.shape[1] != nchild * ne:
        _fail(f"{tag}/count", f"{Ef.shape[1]} children for {ne} elements")
    ac, af = _areas(V, E), _areas(Vf, Ef)
    # rounding of areas grows with |coordinates| / element size (cancellation in the edge vectors)
    cond = float(np.max(np.abs(V))) / float(np.sqrt(np.min(af)) + 1e-300)
    atol = 1e-11 + 1e-14 * cond
    if abs(af.sum() - ac.sum()) > atol * ac.sum():
        _fail(f"{tag}/area", f"total area {af.sum()!r} vs {ac.sum()!r}")
    nc, nf = _normals(V, E), _normals(Vf, Ef)
    cent = (Vf[:, Ef[0]] + Vf[:, Ef[1]] + Vf[:, Ef[2]]).T / 3
    per_parent = np.zeros(ne)
    for j in range(Ef.shape[1]):
        if ordered:
            par = j // nchild
            cand = _locate_parent(V, E[:, [par]], cent[j], None)
            if len(cand) != 1:
                _fail(f"{tag}/nesting", f"child {j} does not lie inside coarse element {par} (documented numbering {nchild}*e+j)")
        else:
            cand = _locate_parent(V, E, cent[j], nf[j])
            if len(cand) < 1:
                _fail(f"{tag}/nesting", f"child {j} lies in no coarse element")
            par = int(cand[0])
            if len(cand) > 1:
                # coincident coarse elements cannot occur (excluded by construction)
                par = int(cand[np.argmin(np.abs(cand - j // nchild))])
        if np.dot(nf[j], nc[par]) < 1 - 1e-9:
            _fail(f"{tag}/orientation", f"child {j} normal {nf[j]} vs parent {par} normal {nc[par]}")
        if int(Df[j]) != int(D[par]):
            _fail(f"{tag}/domain", f"child {j} domain {Df[j]} vs parent {par} domain {D[par]}")
        per_parent[par] += af[j]
    if np.max(np.abs(per_parent - ac)) > atol * ac.max():
        _fail(f"{tag}/partition", "children of an element do not tile it")


def check_refine(desc):
    g, V, E, D, m = _grid(desc)
    topo = mg.topology(E)
    f = g.refine()
    _check_children("refine", g, f, 4, ordered=False)
    if f.number_of_vertices != g.number_of_vertices + g.number_of_edges:
        _fail("refine/vertices", "vertex count != V + E")
    if f.number_of_edges != 2 * g.number_of_edges + 3 * g.number_of_elements:
        _fail("refine/conforming", f"edge count {f.number_of_edges} != 2E+3T: refined mesh is not conforming")
    if int(np.count_nonzero(f.edge_on_boundary)) != 2 * len(topo["boundary_edges"]):
        _fail("refine/boundary", "boundary edge count not doubled")
    # second level on small meshes
    if g.number_of_elements <= 30 and desc.get("two_levels"):
        f2 = f.refine()
        _check_children("refine2", f, f2, 4, ordered=False)
    return {"nontrivial": E.shape[1] >= 2, "labels": ["refine", desc.get("base", "?")]}


_BARY_VERTEX = [0, 1, 1, 2, 2, 0]
_BARY_EDGE = [0, 0, 2, 2, 1, 1]


def check_barycentric(desc):
    g, V, E, D, m = _grid(desc)
    b = g.barycentric_refinement
    if g.barycentric_refinement is not b:
        _fail("bary/cache", "barycentric_refinement is not cached")
    _check_children("bary", g, b, 6, ordered=True)
    if b.number_of_vertices != g.number_of_vertices + g.number_of_edges + g.number_of_elements:
        _fail("bary/vertices", "vertex count != V + E + T")
    Vb, Eb = b.vertices, b.elements.astype(int)
    if b.number_of_edges != 2 * g.number_of_edges + 6 * g.number_of_elements:
        _fail("bary/conforming", "barycentric mesh is not conforming")
    cent = (V[:, E[0]] + V[:, E[1]] + V[:, E[2]]) / 3
    scale = np.max(np.abs(V)) + 1e-300
    for t in range(E.shape[1]):
        for j in range(6):
            tri = Eb[:, 6 * t + j]
            pts = Vb[:, tri]
            # documented numbering: first vertex is the coarse vertex, then anticlockwise
            if tri[0] != E[_BARY_VERTEX[j], t]:
                _fail("bary/numbering", f"child {j} of element {t} does not start at coarse vertex {_BARY_VERTEX[j]}")
            a, c = _EDGE_LOCAL[_BARY_EDGE[j]]
            mid = 0.5 * (V[:, E[a, t]] + V[:, E[c, t]])
            dmid = np.min(np.linalg.norm(pts - mid[:, None], axis=0))
            dcen = np.min(np.linalg.norm(pts - cent[:, [t]], axis=0))
            if dmid > 1e-12 * scale or dcen > 1e-12 * scale:
                _fail("bary/numbering", f"child {j} of element {t} lacks midpoint of edge {_BARY_EDGE[j]} or the barycentre")
    return {"nontrivial": E.shape[1] >= 2, "labels": ["barycentric", desc.get("base", "?")]}


def check_union(desc):
    import bempp_cl.api
    from bempp_cl.api.grid.grid import union

    parts = desc["parts"]
    grids, arrays = [], []
    for pd in parts:
        g, V, E, D, m = _grid(pd)
        grids.append(g)
        arrays.append((V, E, D))
    swapped = desc.get("swapped")
    kw = {}
    if swapped is not None:
        kw["swapped_normals"] = [bool(x) for x in swapped]
    dom = desc.get("domain_indices")
    if dom is not None:
        kw["domain_indices"] = list(dom)
    if "normalize" in desc:
        kw["normalize_domain_indices"] = bool(desc["normalize"])
    u = union(grids, **kw)
    voff = eoff = 0
    allD = []
    for i, (V, E, D) in enumerate(arrays):
        nv, ne = V.shape[1], E.shape[1]
        if not np.array_equal(u.vertices[:, voff: voff + nv], V):
            _fail("union/vertices", f"part {i}")
        Eu = u.elements[:, eoff: eoff + ne].astype(int) - voff
        sw = bool(swapped[i]) if swapped is not None else False
        # same elements, orientation reversed iff swapped: compare geometrically
        nu = np.asarray(u.normals)[eoff: eoff + ne]
        ng = np.asarray(grids[i].normals)
        if np.max(np.abs(nu - (-ng if sw else ng))) > 1e-12:
            _fail("union/orientation", f"part {i} swapped={sw}: normals not {'reversed' if sw else 'preserved'}")
        if not np.array_equal(np.sort(Eu, axis=0), np.sort(E, axis=0)):
            _fail("union/elements", f"part {i}: element vertex sets changed")
        if abs(np.sum(u.volumes[eoff: eoff + ne]) - np.sum(grids[i].volumes)) > 1e-12 * np.sum(grids[i].volumes):
            _fail("union/area", f"part {i}")
        allD.append((i, D))
        voff += nv
        eoff += ne
    if u.number_of_elements != eoff or u.number_of_vertices != voff:
        _fail("union/count", "sizes")
    Du = np.asarray(u.domain_indices).astype(np.int64)
    off = 0
    prev_max = None
    for i, D in allD:
        seg = Du[off: off + len(D)]
        if dom is not None:
            if not np.all(seg == int(dom[i])):
                _fail("union/domain_explicit", f"part {i} did not receive domain index {dom[i]}")
        else:
            # partition inside the part preserved, order preserved, ranges of parts disjoint and increasing
            _, inv_in = np.unique(D, return_inverse=True)
            uq, inv_out = np.unique(seg, return_inverse=True)
            if not np.array_equal(inv_in, inv_out):
                _fail("union/domain_partition", f"part {i}: domain partition/order not preserved ({D.tolist()} -> {seg.tolist()})")
            if prev_max is not None and seg.min() <= prev_max:
                _fail("union/domain_overlap", f"part {i}: indices overlap with earlier parts")
            if desc.get("normalize", True):
                lo = 0 if prev_max is None else prev_max + 1
                if not np.array_equal(uq, np.arange(lo, lo + len(uq))):
                    _fail("union/domain_normalized", f"part {i}: normalised indices {uq.tolist()} are not consecutive from {lo}")
            else:
                if not np.array_equal(seg - seg.min(), D - D.min()):
                    _fail("union/domain_offsets", f"part {i}: un-normalised indices must be a shift of the originals")
            prev_max = int(seg.max())
        off += len(D)
    return {"nontrivial": True, "labels": ["union", "union_swapped" if swapped and any(swapped) else "union_plain",
                                           "union_explicit" if dom is not None else ("union_normalized" if desc.get("normalize", True) else "union_shifted")]}


def check_segments(desc):
    from bempp_cl.api.grid.grid import grid_from_segments

    g, V, E, D, m = _grid(desc["mesh"])
    present = sorted(set(int(x) for x in D))
    segs = [present[i % len(present)] for i in desc["pick"]] if desc["pick"] else present[:1]
    if desc.get("absent"):
        segs = segs + [max(present) + 17]
    sel = np.flatnonzero(np.isin(D, segs))
    sub = grid_from_segments(g, segs)
    if sub.number_of_elements != len(sel):
        _fail("segments/count", f"{sub.number_of_elements} elements, {len(sel)} selected")
    if not np.array_equal(np.asarray(sub.domain_indices).astype(int), D[sel]):
        _fail("segments/domains", "domain indices not preserved in order")
    Es = sub.elements.astype(int)
    Vs = sub.vertices
    for k in range(3):
        if not np.array_equal(Vs[:, Es[k]], V[:, E[k, sel]]):
            _fail("segments/geometry", f"element corner {k} coordinates changed (orientation/geometry not preserved)")
    used = np.unique(Es)
    if len(used) != Vs.shape[1] or Vs.shape[1] != len(np.unique(E[:, sel])):
        _fail("segments/vertices", "vertex list has unused or duplicated vertices")
    return {"nontrivial": len(sel) >= 1 and len(present) >= 2, "labels": ["segments"]}


def check_pointcloud(desc):
    import bempp_cl.api
    from bempp_cl.api.integration.triangle_gauss import rule

    g, V, E, D, m = _grid(desc["mesh"])
    order = desc["order"]
    if desc.get("via_global"):
        old = bempp_cl.api.GLOBAL_PARAMETERS.quadrature.regular
        bempp_cl.api.GLOBAL_PARAMETERS.quadrature.regular = order
        try:
            pts = g.map_to_point_cloud()
        finally:
            bempp_cl.api.GLOBAL_PARAMETERS.quadrature.regular = old
    elif desc.get("local"):
        lp = np.array(desc["local"], dtype=float).T
        pts = g.map_to_point_cloud(local_points=lp)
    else:
        pts = g.map_to_point_cloud(order=order)
    lp = np.array(desc["local"], dtype=float).T if desc.get("local") and not desc.get("via_global") else rule(order)[0]
    q = lp.shape[1]
    if pts.shape != (q * E.shape[1], 3):
        _fail("pointcloud/shape", str(pts.shape))
    scale = np.max(np.abs(V)) + 1e-300
    for t in range(E.shape[1]):
        want = (V[:, [E[0, t]]] + np.outer(V[:, E[1, t]] - V[:, E[0, t]], lp[0]) + np.outer(V[:, E[2, t]] - V[:, E[0, t]], lp[1])).T
        if np.max(np.abs(pts[q * t: q * (t + 1)] - want)) > 1e-12 * scale:
            _fail("pointcloud/order", f"points of element {t} are not stored element-major at [{q * t},{q * (t + 1)})")
    return {"nontrivial": E.shape[1] >= 2, "labels": ["pointcloud"]}


CHECKS = {
    "tables": check_tables,
    "sweep": check_tables,
    "sweep_derived": None,
    "refine": check_refine,
    "barycentric": check_barycentric,
    "union": check_union,
    "segments": check_segments,
    "pointcloud": check_pointcloud,
}


def _sweep_derived(desc):
    check_refine(desc)
    check_barycentric(desc)
    return {"nontrivial": True, "labels": ["sweep_derived"]}


CHECKS["sweep_derived"] = _sweep_derived

_SWEEPS = {"tetra": (4, 4), "octa": (0, 8), "cube": (1, 12), "sheet22": (5, 8), "prismfin": (6, 10), "sheet32": (7, 12), "icosa": (2, 20)}


def shards(tier, seed=1):
    out = []
    q = tier == "quick"
    for name in ["tetra", "octa", "sheet22"]:
        out.append({"check": "sweep", "parent": name, "lo": 1, "hi": 2 ** _SWEEPS[name][1]})
    nparts = 4
    total = 2 ** 12
    for i in range(nparts):
        out.append({"check": "sweep", "parent": "cube", "lo": max(1, i * total // nparts), "hi": (i + 1) * total // nparts})
    out.append({"check": "sweep_derived", "parent": "octa", "lo": 1, "hi": 256})
    if not q:
        for i in range(4):
            out.append({"check": "sweep", "parent": "sheet32", "lo": max(1, i * 1024), "hi": (i + 1) * 1024})
        out.append({"check": "sweep", "parent": "prismfin", "lo": 1, "hi": 1024})
        out.append({"check": "sweep", "parent": "icosa", "sample": 20000, "lo": 1, "hi": 2 ** 20})
        out.append({"check": "sweep_derived", "parent": "sheet22", "lo": 1, "hi": 256})
    n = 1 if q else 8
    out.append({"check": "tables", "examples": 200 * n, "budget_s": 150 * n})
    out.append({"check": "tables", "examples": 100 * n, "budget_s": 120 * n, "kind": "multitrace"})
    out.append({"check": "refine", "examples": 100 * n, "budget_s": 120 * n})
    out.append({"check": "barycentric", "examples": 60 * n, "budget_s": 120 * n})
    out.append({"check": "union", "examples": 150 * n, "budget_s": 120 * n})
    out.append({"check": "segments", "examples": 400 * n, "budget_s": 120 * n})
    out.append({"check": "pointcloud", "examples": 60 * n, "budget_s": 120 * n})
    return out


def cases(spec):
    if spec["check"] not in ("sweep", "sweep_derived"):
        return None
    pidx, nf = _SWEEPS[spec["parent"]]
    if "sample" in spec:
        rng = np.random.default_rng(int(spec["seed"]))
        masks = sorted(set(int(x) for x in rng.integers(1, 2 ** nf, size=spec["sample"])))
    else:
        masks = range(spec["lo"], spec["hi"])
    return ({"base": "sub", "p": [pidx, int(mk)]} for mk in masks)


def strategy(spec):
    from hypothesis import strategies as st

    c = spec["check"]
    dtype = st.one_of(
        st.none(),
        st.fixed_dictionaries({"v": st.sampled_from(["float64", "float32"]), "e": st.sampled_from(["uint32", "int32", "int64"]),
                               "order": st.sampled_from(["C", "F"])}),
    )

    @st.composite
    def with_dtype(draw, kind="any", max_elems=80, domains=True):
        d = draw(mg.mesh_descs(kind, max_elems=max_elems, domains=domains))
        dt = draw(dtype)
        if dt:
            d["dtype"] = dt
        if draw(st.integers(0, 9)) == 0:
            d["nodomains"] = True
        return d

    if c == "tables":
        return with_dtype(kind=spec.get("kind", "any"))
    if c == "refine":
        @st.composite
        def s(draw):
            d = draw(with_dtype(max_elems=60))
            d["two_levels"] = draw(st.booleans())
            return d
        return s()
    if c == "barycentric":
        return with_dtype(max_elems=60)
    if c == "union":
        @st.composite
        def s(draw):
            n = draw(st.integers(1, 3))
            parts = [draw(mg.mesh_descs("any", max_elems=30, domains=True, motion=False, relabel=False)) for _ in range(n)]
            d = {"parts": parts}
            mode = draw(st.sampled_from(["default", "explicit", "shifted", "normalized"]))
            if mode == "explicit":
                d["domain_indices"] = [draw(st.sampled_from([0, 1, 2, 5, 9])) for _ in range(n)]
            elif mode == "shifted":
                d["normalize"] = False
            elif mode == "normalized":
                d["normalize"] = True
            if draw(st.booleans()):
                d["swapped"] = [draw(st.booleans()) for _ in range(n)]
            return d
        return s()
    if c == "segments":
        @st.composite
        def s(draw):
            m = draw(mg.mesh_descs("any", max_elems=60, domains=True))
            return {"mesh": m, "pick": draw(st.lists(st.integers(0, 5), min_size=0, max_size=3)), "absent": draw(st.booleans())}
        return s()
    if c == "pointcloud":
        @st.composite
        def s(draw):
            m = draw(mg.mesh_descs("any", max_elems=40))
            d = {"mesh": m, "order": draw(st.integers(1, 20))}
            k = draw(st.integers(0, 2))
            if k == 1:
                d["via_global"] = True
            elif k == 2:
                d["local"] = [[draw(st.sampled_from([0.0, 0.25, 0.5])), draw(st.sampled_from([0.0, 0.2, 0.5]))] for _ in range(draw(st.integers(1, 4)))]
            return d
        return s()
    raise ValueError(c)


def exhaustive(tier):
    return False  # the sweeps are exhaustive over their bases, the Hypothesis part is sampled


def required_labels(tier):
    return ["tables", "closed", "open", "nonmanifold_edge", "refine", "barycentric", "union", "union_swapped", "segments",
            "pointcloud", "dtype_variant", "relabelled", "sweep_derived"]

"""C15 Linear solvers return solutions of the stated system in the right spaces."""

import warnings

import numpy as np

from vlib.pbt import Violation
from vlib import meshgen as mg

LEVEL = "exploration"
RULE = (
    "(operator from a pool of well-conditioned single and 2x2 blocked, real and complex operators on generated closed meshes; solver lu / "
    "lu with precomputed factors / gmres / cg; tolerance 1e-4..1e-12; restart and maxiter settings; use_strong_form on/off; real or complex "
    "right-hand side A*f with drawn f): lu returns f to rounding; gmres/cg return info 0 and a residual <= tol in the norm the iteration "
    "uses whenever an instrumented scipy run on the same dense matrix converges; results live in the domain spaces; residual and "
    "iteration-count outputs equal those of the instrumented run (cg residuals recomputed as |b - A x_i|). Non-trivial = complex or "
    "blocked or strong-form case or tolerance <= 1e-8; distinct by descriptor hash."
)
ORACLES = ["round trip lu(A, A f) = f", "residual of the returned solution recomputed with dense matrices", "instrumented scipy run (differential)"]
ASSUMPTIONS = ["scipy.sparse.linalg gmres/cg are correct; the check decides whether bempp feeds them the right operator, right-hand side and space bookkeeping"]

_POOL = {}


def _fail(sig, msg):
    raise Violation("C15/" + sig, msg)


def pool(mesh_id):
    if mesh_id in _POOL:
        return _POOL[mesh_id]
    import bempp_cl.api
    from bempp_cl.api.operators.boundary import laplace, helmholtz, sparse
    from bempp_cl.api.assembly.blocked_operator import BlockedOperator

    meshes = [
        {"base": "octa", "edits": [["edge", 3], ["face", 1]], "amp": 0.1, "gseed": 4, "cls": "regular"},
        {"base": "cube", "p": [5], "edits": [["edge", 7]], "amp": 0.05, "gseed": 9, "cls": "regular", "lscale": 0},
        {"base": "icosa", "edits": [], "amp": 0.1, "gseed": 2, "cls": "regular", "aniso": [1.0, 0.7, 1.0]},
    ]
    g = mg.make_grid(meshes[mesh_id])
    p = bempp_cl.api.function_space(g, "P", 1)
    d = bempp_cl.api.function_space(g, "DP", 0)
    Ip = sparse.identity(p, p, p)
    Id = sparse.identity(d, d, d)
    Vp = laplace.single_layer(p, p, p)
    Vd = laplace.single_layer(d, d, d)
    Kp = laplace.double_layer(p, p, p)
    Wp = laplace.hypersingular(p, p, p)
    k = 1.7
    Hk = helmholtz.double_layer(p, p, p, k)
    Hv = helmholtz.single_layer(p, p, p, k)
    Hdp = helmholtz.single_layer(d, p, p, 0.9 + 0.3j)
    Hpd = helmholtz.double_layer(p, d, d, 0.9 + 0.3j)
    ops = {
        "Vd": (Vd, True), "Vp": (Vp, True), "second_kind": (0.5 * Ip - Kp, False), "W_plus_mass": (Wp + 0.5 * Ip, True),
        "combined_field": (0.5 * Ip + Hk - 1j * k * Hv, False),
    }
    B = BlockedOperator(2, 2)
    B[0, 0] = Vp + Ip
    B[0, 1] = 0.2 * Hdp
    B[1, 0] = 0.2 * Hpd
    B[1, 1] = Vd + Id
    Br = BlockedOperator(2, 2)
    Br[0, 0] = 0.5 * Ip - Kp
    Br[0, 1] = laplace.single_layer(d, p, p)
    Br[1, 0] = 0.3 * sparse.identity(p, d, d)
    Br[1, 1] = Vd + Id
    ops["blocked_complex"] = (B, False)
    ops["blocked_real"] = (Br, False)
    info = {}
    for nme, (op, spd) in ops.items():
        W = np.asarray(op.weak_form().to_dense()) if hasattr(op.weak_form(), "to_dense") else np.asarray(op.weak_form() @ np.eye(op.weak_form().shape[1]))
        info[nme] = {"op": op, "spd": spd, "W": W, "cond": float(np.linalg.cond(W)), "blocked": nme.startswith("blocked")}
    Mp = np.asarray(Ip.weak_form().to_sparse().todense())
    Md = np.asarray(Id.weak_form().to_sparse().todense())
    _POOL[mesh_id] = {"ops": info, "p": p, "d": d, "Mp": Mp, "Md": Md}
    return _POOL[mesh_id]


def check_solver(desc):
    import bempp_cl.api
    import scipy.sparse.linalg as spla
    from bempp_cl.api.linalg import lu, gmres, cg
    from bempp_cl.api.linalg.direct_solvers import compute_lu_factors

    P = pool(desc["mesh"])
    ent = P["ops"][desc["op"]]
    A, W, cond = ent["op"], ent["W"], ent["cond"]
    if cond > 1e6:
        return {"nontrivial": False, "labels": ["skipped_ill_conditioned"]}
    solver = desc["solver"]
    if solver == "cg" and (not ent["spd"] or ent["blocked"]):
        return {"nontrivial": False, "labels": ["skipped_cg_not_spd"]}
    rng = np.random.default_rng(desc["seed"])
    n = W.shape[1]
    f = rng.standard_normal(n) + (1j * rng.standard_normal(n) if desc["complex"] else 0)
    p, d = P["p"], P["d"]
    blocked = ent["blocked"]
    mixed = blocked and desc["complex"] == "mixed"
    if blocked:
        np_ = p.global_dof_count
        if mixed:
            # real first entry, complex second entry: the list has to be promoted to complex as a whole
            f = f.astype(complex)
            f[:np_] = np.real(f[:np_])
            fl = [bempp_cl.api.GridFunction(p, coefficients=np.real(f[:np_]).astype(float)), bempp_cl.api.GridFunction(d, coefficients=f[np_:])]
        else:
            fl = [bempp_cl.api.GridFunction(p, coefficients=f[:np_]), bempp_cl.api.GridFunction(d, coefficients=f[np_:])]
        b = A * fl
        doms = [p, d]
        Mblk = np.block([[P["Mp"], np.zeros((np_, n - np_))], [np.zeros((n - np_, np_)), P["Md"]]])
    else:
        dom = A.domain
        fl = bempp_cl.api.GridFunction(dom, coefficients=f)
        b = A * fl
        doms = [dom]
        Mblk = P["Mp"] if dom is p or dom.is_compatible(p) else P["Md"]
    bvec = W @ f  # projections of the right-hand side
    labels = ["solver", solver, desc["op"]]

    def unpack(res):
        if blocked:
            if not isinstance(res, (list, tuple)) or len(res) != 2:
                _fail(f"{solver}/blocked_result_shape", f"blocked solve returned {type(res).__name__} of length {len(res) if hasattr(res, '__len__') else '?'}")
            for r, s in zip(res, doms):
                if not r.space.is_compatible(s):
                    _fail(f"{solver}/result_space", "a returned function does not live in the corresponding domain space")
                if len(r.coefficients) != s.global_dof_count:
                    _fail(f"{solver}/result_length", "a returned function has the wrong number of coefficients")
            return np.concatenate([r.coefficients for r in res])
        if not res.space.is_compatible(doms[0]):
            _fail(f"{solver}/result_space", "the returned function does not live in the domain space of A")
        return np.asarray(res.coefficients)

    fn = max(1e-300, float(np.linalg.norm(f)))
    if solver in ("lu", "lu_factors"):
        if solver == "lu":
            x = unpack(lu(A, b))
        else:
            fac = compute_lu_factors(A)
            x = unpack(lu(A, b, lu_factor=fac))
            x2 = unpack(lu(A, b))
            if np.linalg.norm(x - x2) > 1e-10 * cond * fn:
                _fail("lu/factors_vs_direct", f"precomputed LU factors give a different answer (diff {np.linalg.norm(x - x2) / fn:.2e})")
        err = np.linalg.norm(x - f) / fn
        if err > 1e-12 * max(cond, 10):
            _fail(f"lu/roundtrip/{'blocked' if blocked else 'single'}", f"lu(A, A*f) differs from f by {err:.2e} (cond {cond:.1e})")
        return {"nontrivial": bool(blocked or desc["complex"]), "labels": labels + (["blocked"] if blocked else []) + (["complex"] if desc["complex"] else []) + (["mixed_real_complex_list"] if mixed else [])}
    tol = desc["tol"]
    strong = desc["strong"]
    kw = {"tol": tol, "use_strong_form": strong, "return_residuals": True, "return_iteration_count": True}
    if desc.get("maxiter") is not None:
        kw["maxiter"] = desc["maxiter"]
    if solver == "gmres" and desc.get("restart") is not None:
        kw["restart"] = desc["restart"]
    # the system scipy is expected to see
    if strong:
        Aref = np.linalg.solve(Mblk, W)
        bref = np.linalg.solve(Mblk, bvec)
    else:
        Aref, bref = W, bvec
    cnt = {"n": 0, "res": []}

    def cb(xk):
        cnt["n"] += 1
        if solver == "cg":
            cnt["res"].append(float(np.linalg.norm(bref - Aref @ xk)))
        else:
            cnt["res"].append(float(np.linalg.norm(xk)))

    with warnings.catch_warnings():
        warnings.simplefilter("ignore")
        if solver == "gmres":
            xs, info_ref = spla.gmres(Aref, bref, rtol=tol, restart=kw.get("restart"), maxiter=kw.get("maxiter"), callback=cb)
            out = gmres(A, b, **kw)
        else:
            xs, info_ref = spla.cg(Aref, bref, rtol=tol, maxiter=kw.get("maxiter"), callback=cb)
            out = cg(A, b, **kw)
    if len(out) != 4:
        _fail(f"{solver}/outputs", f"{len(out)} outputs for return_residuals and return_iteration_count")
    res, info, residuals, count = out
    x = unpack(res)
    tag = f"{solver}/{'strong' if strong else 'weak'}/{'blocked' if blocked else 'single'}"
    if (info == 0) != (info_ref == 0):
        _fail(f"{tag}/info", f"info = {info} but the same iteration on the dense system ends with info = {info_ref} (tol {tol:g})")
    if count != cnt["n"]:
        _fail(f"{tag}/iteration_count", f"iteration count {count}, the instrumented scipy run made {cnt['n']} callback calls")
    if len(residuals) != count:
        _fail(f"{tag}/residual_length", f"{len(residuals)} residuals for {count} iterations")
    if count and np.max(np.abs(np.asarray(residuals) - np.asarray(cnt["res"]))) > 1e-6 * max(1e-300, max(cnt["res"])) + 1e-9 * np.linalg.norm(bref):
        _fail(f"{tag}/residual_values", "residual history differs from the instrumented run on the same system")
    if info_ref == 0:
        r = np.linalg.norm(Aref @ x - bref) / max(1e-300, np.linalg.norm(bref))
        if r > tol * (1 + 1e-6) * 1.5 + 1e-13:
            _fail(f"{tag}/residual", f"returned solution has relative residual {r:.2e} > tol {tol:g} in the {'strong' if strong else 'weak'} form")
        err = np.linalg.norm(x - f) / fn
        if err > 20 * cond * tol + 1e-10:
            _fail(f"{tag}/solution_error", f"solution error {err:.2e} exceeds cond*tol = {cond * tol:.2e}")
        labels.append("converged")
    else:
        labels.append("not_expected_to_converge")
    if strong:
        labels.append("strong_form")
    if blocked:
        labels.append("blocked")
    if desc["complex"]:
        labels.append("complex")
    if mixed:
        labels.append("mixed_real_complex_list")
    return {"nontrivial": blocked or strong or bool(desc["complex"]) or tol <= 1e-8, "labels": labels}


CHECKS = {"solver": check_solver}


def setup(spec):
    """Assemble the operator pool of the shard's mesh before the budget clock starts (it is JIT-bound)."""
    if "mesh" in spec:
        pool(spec["mesh"])


def shards(tier, seed=1):
    n = 1 if tier == "quick" else 8
    meshes = [seed % 3, (seed + 1) % 3] if tier == "quick" else [0, 1, 2]
    return [{"check": "solver", "mesh": m, "examples": 70 * n, "budget_s": 300 * n} for m in meshes]


def strategy(spec):
    from hypothesis import strategies as st

    return st.fixed_dictionaries({
        "mesh": st.just(spec["mesh"]),
        "op": st.sampled_from(["Vd", "Vp", "second_kind", "W_plus_mass", "combined_field", "blocked_complex", "blocked_real"]),
        "solver": st.sampled_from(["lu", "lu_factors", "gmres", "gmres", "cg"]),
        "tol": st.sampled_from([1e-4, 1e-6, 1e-8, 1e-10, 1e-12]),
        "restart": st.sampled_from([None, 5, 20]),
        "maxiter": st.sampled_from([None, 3, 200]),
        "strong": st.booleans(),
        "complex": st.sampled_from([False, True, True, "mixed"]),
        "seed": st.integers(0, 999),
    })


def required_labels(tier):
    return ["lu", "lu_factors", "gmres", "cg", "blocked", "complex", "strong_form", "converged", "not_expected_to_converge"]

"""C20 OpenCL and Numba backends define the same kernels and shape functions."""

import ast
import ctypes
import os
import re
import subprocess
import tempfile
import types

import numpy as np

from vlib.pbt import Violation, HarnessError

LEVEL = "translation_validation"
RULE = (
    "Programs = every Green's-function kernel found in kernels.h (regex over `inline void <name>_(novec|vec4|vec8|vec16)`) x width x "
    "precision, compiled unmodified with g++ against a ~60-line OpenCL-C shim and called through ctypes, plus the four shapeset headers. "
    "Each is paired with the Numba kernel selected for the same kernel_type by the two selection tables (select_numba_kernels, and "
    "select_cl_kernel read by ast); helmholtz_gradient is paired with fmm.helpers.helmholtz_kernel. Inputs (Hypothesis): point pairs at "
    "distance 10^t, t in [-3,3], random directions/offsets, unit normals, k real/complex with |k| r <= 50, a different point in every "
    "lane. Outputs compared in double (1e-12 of the kernel magnitude bound) and single (inputs rounded to float32 first). A kernel in "
    "one table without a counterpart is reported. Non-trivial = every case (>= 30% complex k where applicable); distinct by input hash."
)
ORACLES = ["differential: OpenCL-C source executed on the host vs Numba kernel", "lane i of vecN == novec on point i"]
ASSUMPTIONS = [
    "OpenCL C semantics are modelled by host IEEE arithmetic (rsqrt = 1/sqrt); native_* precision and the .cl assembler files are out of scope",
    "g++ available in the sandbox",
]
NO_BEMPP_WARMUP = False

_STATE = {}


def _fail(sig, msg):
    raise Violation("C20/" + sig, msg)


def _repo():
    import bempp_cl

    return os.path.dirname(os.path.abspath(bempp_cl.__file__))


def _parse_kernels():
    inc = os.path.join(_repo(), "core", "sources", "include")
    txt = open(os.path.join(inc, "kernels.h")).read()
    found = {}
    for m in re.finditer(r"inline\s+void\s+(\w+?)_(novec|vec4|vec8|vec16)\s*\(", txt):
        name, mode = m.group(1), m.group(2)
        if name.startswith("diff"):
            continue
        found.setdefault(name, set()).add(mode)
    return inc, found


def _cl_table():
    src = open(os.path.join(_repo(), "core", "opencl_kernels.py")).read()
    tree = ast.parse(src)
    for node in ast.walk(tree):
        if isinstance(node, ast.FunctionDef) and node.name == "select_cl_kernel":
            for st in ast.walk(node):
                if isinstance(st, ast.Assign) and len(st.targets) == 1 and isinstance(st.targets[0], ast.Name) and st.targets[0].id == "kernels":
                    return ast.literal_eval(st.value)
    raise HarnessError("could not find the `kernels` table in opencl_kernels.select_cl_kernel")


def _nout(name):
    if name == "helmholtz_gradient":
        return 6
    if name.startswith("laplace") or name.startswith("modified_helmholtz_real"):
        return 1
    return 2


def _gen_source(found):
    lines = ['#include "opencl_shim.h"', '#include "kernels.h"', '#include "p0_discontinuous_shapeset.h"', '#include "p1_discontinuous_shapeset.h"',
             '#include "rwg0_shapeset.h"', '#include "snc0_shapeset.h"', 'extern "C" {']
    for name, modes in sorted(found.items()):
        no = _nout(name)
        for mode in sorted(modes):
            n = 1 if mode == "novec" else int(mode[3:])
            fn = f"w_{name}_{mode}"
            lines.append(f"void {fn}(const double* tp, const double* yp, const double* tn, const double* yn, const double* par, double* out) {{")
            lines.append("  REALTYPE kp[4]; for (int i = 0; i < 4; ++i) kp[i] = (REALTYPE)par[i];")
            lines.append("  REALTYPE3 t((REALTYPE)tp[0], (REALTYPE)tp[1], (REALTYPE)tp[2]); REALTYPE3 tnn((REALTYPE)tn[0], (REALTYPE)tn[1], (REALTYPE)tn[2]);")
            if n == 1:
                lines.append("  REALTYPE3 y((REALTYPE)yp[0], (REALTYPE)yp[1], (REALTYPE)yp[2]); REALTYPE3 ynn((REALTYPE)yn[0], (REALTYPE)yn[1], (REALTYPE)yn[2]);")
                if no == 6:
                    lines.append(f"  REALTYPE res[3][2]; {name}_{mode}(t, y, tnn, ynn, kp, res); for (int c = 0; c < 3; ++c) for (int r = 0; r < 2; ++r) out[2 * c + r] = res[c][r];")
                else:
                    lines.append(f"  REALTYPE res[{no}]; {name}_{mode}(t, y, tnn, ynn, kp, res); for (int c = 0; c < {no}; ++c) out[c] = res[c];")
            else:
                V = f"REALTYPE{n}"
                lines.append(f"  {V} y[3]; {V} ynn[3]; for (int c = 0; c < 3; ++c) for (int l = 0; l < {n}; ++l) {{ y[c].s[l] = (REALTYPE)yp[c * {n} + l]; ynn[c].s[l] = (REALTYPE)yn[c * {n} + l]; }}")
                if no == 6:
                    lines.append(f"  {V} res[3][2]; {name}_{mode}(t, y, tnn, ynn, kp, res); for (int c = 0; c < 3; ++c) for (int r = 0; r < 2; ++r) for (int l = 0; l < {n}; ++l) out[(2 * c + r) * {n} + l] = res[c][r].s[l];")
                else:
                    lines.append(f"  {V} res[{no}]; {name}_{mode}(t, y, tnn, ynn, kp, res); for (int c = 0; c < {no}; ++c) for (int l = 0; l < {n}; ++l) out[c * {n} + l] = res[c].s[l];")
            lines.append("}")
    for shp, cnt in (("p0_discontinuous", 1), ("p1_discontinuous", 3), ("rwg0", 6), ("snc0", 6)):
        lines.append(f"void w_shape_{shp}(const double* lp, double* out) {{ REALTYPE2 p; p.x = (REALTYPE)lp[0]; p.y = (REALTYPE)lp[1]; REALTYPE res[{cnt}]; "
                     f"{shp}_evaluate(&p, res); for (int i = 0; i < {cnt}; ++i) out[i] = res[i]; }}")
    lines.append("}")
    return "\n".join(lines)


def setup(spec):
    if _STATE:
        return
    inc, found = _parse_kernels()
    if len(found) < 8:
        raise HarnessError(f"only {len(found)} kernels found in kernels.h")
    here = os.path.dirname(os.path.dirname(os.path.abspath(__file__)))
    build = tempfile.mkdtemp(prefix="c20_", dir=os.environ.get("VERIF_SCRATCH") or None)
    src = os.path.join(build, "wrap.cpp")
    open(src, "w").write(_gen_source(found))
    libs = {}
    for prec, name in ((1, "double"), (0, "single")):
        so = os.path.join(build, f"k_{name}.so")
        cmd = ["g++", "-O1", "-fPIC", "-shared", "-std=c++14", "-w", "-ffp-contract=off", f"-DPRECISION={prec}", f"-I{inc}",
               f"-I{os.path.join(here, 'clshim')}", src, "-o", so]
        r = subprocess.run(cmd, capture_output=True, text=True)
        if r.returncode != 0:
            # a header that no longer compiles under the modelled OpenCL C is a finding about the header, not a harness bug
            _STATE["compile_error"] = r.stderr[-1500:]
            _STATE["found"] = found
            return
        libs[name] = ctypes.CDLL(so)
    _STATE.update({"found": found, "libs": libs, "cl_table": _cl_table(), "build": build})


def finish(spec):
    import shutil

    if _STATE.get("build"):
        shutil.rmtree(_STATE["build"], ignore_errors=True)
    found = _STATE.get("found", {})
    return {"programs_in_header": 2 * sum(len(m) for m in found.values()) + 8}


def merge_extra(extras):
    progs = max(extras.get("programs_in_header", [0]))
    return {"programs": int(progs), "disagreements_checked": 0,
            "explanation": "programs = (kernel, width, precision) triples compiled from kernels.h plus 4 shapesets x 2 precisions"}


def _call(lib, fn, tp, Y, tn, YN, par, nout, n):
    f = getattr(lib, fn)
    out = np.zeros(nout * n)
    dp = ctypes.POINTER(ctypes.c_double)
    arrs = [np.ascontiguousarray(a, dtype=np.float64) for a in (tp, Y, tn, YN, par, out)]
    f(*[a.ctypes.data_as(dp) for a in arrs])
    return arrs[5].reshape(nout, n)


def _numba_for(name):
    """(regular kernel fn, singular kernel fn or None) for an OpenCL kernel name via the two selection tables."""
    from bempp_cl.core import numba_kernels as nk

    inv = {v: k for k, v in _STATE["cl_table"].items()}
    if name not in inv:
        return None
    kt = inv[name]
    desc = types.SimpleNamespace(kernel_type=kt, assembly_type="default_scalar")
    reg = nk.select_numba_kernels(desc, mode="regular")[1]
    try:
        sing = nk.select_numba_kernels(desc, mode="singular")[1]
    except KeyError:
        sing = None
    return reg, sing


def _inputs(desc, n, single):
    rng = np.random.default_rng(desc["seed"])
    t = desc["logdist"]
    off = np.array(desc["offset"], dtype=float)
    tp = off + rng.standard_normal(3) * 0.1 * 10.0**t
    dirs = rng.standard_normal((3, n))
    dirs /= np.linalg.norm(dirs, axis=0)
    r = 10.0**t * rng.uniform(0.5, 2.0, n)
    Y = tp[:, None] + dirs * r[None, :]
    tn = rng.standard_normal(3)
    tn /= np.linalg.norm(tn)
    YN = rng.standard_normal((3, n))
    YN /= np.linalg.norm(YN, axis=0)
    kr, ki = desc["k"]
    rmax = float(r.max())
    par = np.array([kr / rmax, ki / rmax, 0.0, 0.0])
    if desc.get("far"):
        # far-field kernels take a direction and a point; scale k by the point norm
        tp = tp / np.linalg.norm(tp)
        par = np.array([kr / max(1e-300, float(np.max(np.linalg.norm(Y, axis=0)))), ki / rmax, 0.0, 0.0])
    if single:
        tp, Y, tn, YN, par = (a.astype(np.float32).astype(np.float64) for a in (tp, Y, tn, YN, par))
    return tp, Y, tn, YN, par


def check_kernel(desc):
    if "compile_error" in _STATE:
        _fail("compile", "kernels.h / shapeset headers do not compile under the OpenCL-C model: " + _STATE["compile_error"][-600:])
    name, mode, prec = desc["name"], desc["mode"], desc["precision"]
    n = 1 if mode == "novec" else int(mode[3:])
    single = prec == "single"
    far = "far_field" in name
    d = dict(desc)
    d["far"] = far
    if single:
        # keep |x|/r moderate: differences of float32 coordinates lose |x|/r digits
        d["offset"] = [0.0, 0.0, 0.0]
    tp, Y, tn, YN, par = _inputs(d, n, single)
    if name.startswith("modified_helmholtz_real"):
        par = np.array([abs(par[0]) + abs(par[1]), 0, 0, 0.0])
    if name.startswith("laplace"):
        par = np.zeros(4)
    nout = _nout(name)
    lib = _STATE["libs"][prec]
    cl = _call(lib, f"w_{name}_{mode}", tp, Y.ravel(), tn, YN.ravel(), par, nout, n)
    # Numba side (always evaluated in double from the same, possibly float32-rounded, inputs)
    if name == "helmholtz_gradient":
        from bempp_cl.api.fmm.helpers import helmholtz_kernel

        res = helmholtz_kernel(tp.reshape(3, 1).copy(), np.ascontiguousarray(Y), par[:2].copy(), np.dtype("float64"), np.dtype("complex128"))
        res = np.asarray(res).reshape(-1)
        if np.iscomplexobj(res):
            vals = res.reshape(n, 4)
            grad = vals[:, 1:4].T  # (3, n) complex
        else:
            raise HarnessError("unexpected return of fmm.helpers.helmholtz_kernel")
        nb = np.empty((6, n))
        for c in range(3):
            nb[2 * c] = grad[c].real
            nb[2 * c + 1] = grad[c].imag
        pair = "fmm.helpers.helmholtz_kernel"
        nbs = None
    else:
        fns = _numba_for(name)
        if fns is None:
            _fail(f"unpaired/{name}", f"OpenCL kernel {name} has no entry in select_cl_kernel's table, so no Numba kernel of the same kernel_type")
        reg, sing = fns
        kp = par[:2].copy() if nout == 2 or name.startswith("modified") else par[:2].copy()
        v = np.asarray(reg(tp.copy(), np.ascontiguousarray(Y), tn.copy(), np.ascontiguousarray(YN), kp))
        nb = np.vstack([v.real, v.imag]) if nout == 2 else v.real.reshape(1, n)
        pair = reg.__name__ if hasattr(reg, "__name__") else str(reg)
        nbs = None
        if sing is not None and n == 1:
            vs = np.asarray(sing(np.ascontiguousarray(tp.reshape(3, 1)), np.ascontiguousarray(Y), tn.copy(), YN[:, 0].copy(), kp))
            nbs = np.vstack([vs.real, vs.imag]) if nout == 2 else vs.real.reshape(1, 1)
    # magnitude bound per lane
    rr = np.linalg.norm(Y - tp[:, None], axis=0)
    kabs = float(np.hypot(par[0], par[1]))
    damp = np.exp(-par[1] * rr) if not far else np.ones(n)
    if far:
        bound = (1 + kabs) / (4 * np.pi) * np.ones(n)
    elif name.endswith("single_layer"):
        bound = damp / (4 * np.pi * rr)
    else:
        bound = damp * (1 + kabs * rr) / (4 * np.pi * rr**2)
    if name.startswith("modified_helmholtz_real"):
        bound = bound * np.exp(par[0] * rr) if False else bound
    tol = 2e-4 if single else 1e-12
    if single:
        tol = tol * (1 + kabs * rr.max())  # phase error k*dr
    err = np.max(np.abs(cl - nb) / bound[None, :])
    sig = f"{name}/{mode}/{prec}"
    if not np.all(np.isfinite(cl)) or err > tol:
        lane = int(np.argmax(np.max(np.abs(cl - nb) / bound[None, :], axis=0)))
        _fail(f"kernel/{sig}", f"OpenCL {name}_{mode} ({prec}) differs from Numba {pair} by {err:.2e} of the kernel magnitude (tolerance {tol:.1e}) in lane {lane}: "
              f"cl={cl[:, lane]}, numba={nb[:, lane]}, k={par[:2]}, r={rr[lane]:.3g}")
    if nbs is not None:
        errs = np.max(np.abs(cl - nbs) / bound[None, :])
        if errs > tol:
            _fail(f"kernel_singular/{name}/{prec}", f"OpenCL {name}_novec differs from the Numba singular-variant kernel by {errs:.2e}")
    labels = ["kernel", name, mode, prec]
    if par[1] != 0 and nout >= 2:
        labels.append("complex_k")
    return {"nontrivial": True, "labels": labels, "measured": {"rel_err": float(err)}}


def check_shapeset(desc):
    if "compile_error" in _STATE:
        _fail("compile", "headers do not compile: " + _STATE["compile_error"][-600:])
    from bempp_cl.api.space.shapesets import Shapeset

    name, prec = desc["name"], desc["precision"]
    lp = np.array(desc["point"], dtype=float)
    if prec == "single":
        lp = lp.astype(np.float32).astype(np.float64)
    cnt = {"p0_discontinuous": 1, "p1_discontinuous": 3, "rwg0": 6, "snc0": 6}[name]
    lib = _STATE["libs"][prec]
    out = np.zeros(cnt)
    dp = ctypes.POINTER(ctypes.c_double)
    a = np.ascontiguousarray(lp)
    getattr(lib, f"w_shape_{name}")(a.ctypes.data_as(dp), out.ctypes.data_as(dp))
    vals = np.asarray(Shapeset(name).evaluate(lp.reshape(2, 1)))  # (dim, nshape, 1)
    if name in ("rwg0", "snc0"):
        ref = np.array([vals[c, i, 0] for i in range(3) for c in range(2)])
    else:
        ref = vals[0, :, 0]
    tol = 1e-6 if prec == "single" else 1e-15
    if np.max(np.abs(out - ref)) > tol * max(1.0, np.max(np.abs(ref))):
        _fail(f"shapeset/{name}/{prec}", f"OpenCL {name}_evaluate at {lp} = {out}, Numba shapeset = {ref}")
    return {"nontrivial": True, "labels": ["shapeset", name, prec]}


def check_tables(desc):
    """Every kernel of one backend has a counterpart in the other, in all four widths."""
    if "compile_error" in _STATE:
        _fail("compile", "headers do not compile: " + _STATE["compile_error"][-600:])
    found = _STATE["found"]
    table = _STATE["cl_table"]
    from bempp_cl.core import numba_kernels as nk

    for kt, clname in table.items():
        if clname not in found:
            _fail(f"tables/missing_cl/{clname}", f"select_cl_kernel maps {kt} to {clname}, which is not defined in kernels.h")
        try:
            nk.select_numba_kernels(types.SimpleNamespace(kernel_type=kt, assembly_type="default_scalar"), mode="regular")
        except KeyError:
            _fail(f"tables/missing_numba/{kt}", f"kernel type {kt} has an OpenCL kernel but no Numba kernel")
    for name, modes in found.items():
        if modes != {"novec", "vec4", "vec8", "vec16"}:
            _fail(f"tables/widths/{name}", f"{name} is defined for widths {sorted(modes)} only")
        if name not in table.values() and name != "helmholtz_gradient":
            _fail(f"tables/unpaired/{name}", f"{name} in kernels.h is not referenced by select_cl_kernel")
    return {"nontrivial": True, "labels": ["tables"]}


CHECKS = {"kernel": check_kernel, "shapeset": check_shapeset, "tables": check_tables}


def shards(tier, seed=1):
    n = 1 if tier == "quick" else 10
    _, found = _parse_kernels()
    names = sorted(found)
    out = [{"check": "tables", "budget_s": 60}]
    ng = 4
    groups = [names[i::ng] for i in range(ng)]
    for g in groups:
        out.append({"check": "kernel", "names": g, "examples": 260 * len(g) * n, "budget_s": 240 * n})
    out.append({"check": "shapeset", "examples": 300 * n, "budget_s": 60 * n})
    return out


def cases(spec):
    if spec["check"] == "tables":
        return [{"tables": True}]
    return None


def strategy(spec):
    from hypothesis import strategies as st

    if spec["check"] == "shapeset":
        return st.fixed_dictionaries({
            "name": st.sampled_from(["p0_discontinuous", "p1_discontinuous", "rwg0", "snc0"]),
            "precision": st.sampled_from(["double", "single"]),
            "point": st.tuples(st.floats(0, 1), st.floats(0, 1)).map(lambda p: [p[0] * (1 - 0.5 * p[1]), p[1] * (1 - 0.5 * p[0])]),
        })
    _, found = _parse_kernels()

    @st.composite
    def s(draw):
        name = draw(st.sampled_from(spec["names"]))
        mode = draw(st.sampled_from(sorted(found[name])))
        kr = draw(st.sampled_from([0.0, 1.0, -2.0, 7.5, 30.0, 0.3]))
        ki = draw(st.sampled_from([0.0, 0.0, 0.5, 3.0, -0.4, 10.0]))
        return {"name": name, "mode": mode, "precision": draw(st.sampled_from(["double", "double", "single"])),
                "logdist": draw(st.sampled_from([-3, -2, -1, 0, 0.5, 1, 2, 3])), "offset": [draw(st.sampled_from([0.0, 1.0, -30.0, 1000.0])) for _ in range(3)],
                "k": [kr, ki], "seed": draw(st.integers(0, 10**6))}
    return s()


def exhaustive(tier):
    return False


def required_labels(tier):
    return ["kernel", "shapeset", "tables", "novec", "vec4", "vec8", "vec16", "double", "single", "complex_k", "helmholtz_gradient",
            "laplace_single_layer", "helmholtz_double_layer", "modified_helmholtz_real_adjoint_double_layer", "helmholtz_double_layer_far_field"]

"""C09 Function spaces are conforming and their DOF maps are coherent."""

import numpy as np

from vlib.pbt import Violation, Rejected
from vlib import meshgen as mg
from vlib import spacegen as sg

LEVEL = "exploration"
RULE = (
    "(mesh descriptor, space descriptor) pairs: meshes closed/open/genus-1/multi-component/multitrace with patch, plane and "
    "scattered domain labellings, relabelled; spaces of all nine kinds with whole-grid / segments / support_elements selection, "
    "all include_boundary_dofs x truncate_at_segment_edge combinations (None/False/True) and swapped normals (physically reversed "
    "domains + swapped flag). Checked: conformity jumps at 3 points of every edge, partition of unity, local2global/global2local "
    "inverse, entity attachment, dof count against a set model, documented rejections. Non-trivial = proper segment/support or a "
    "non-default option or an open/non-uniform mesh; distinct by descriptor hash."
)
ORACLES = [
    "reference basis functions (P0, P1, RWG l/(2A)(x-p), SNC n x RWG) composed with the space's definition data",
    "brute-force set model of selected entities",
]
ASSUMPTIONS = [
    "edge-based spaces are only generated on supports that are manifold (every edge <= 2 supported neighbours)",
    "truncate_at_segment_edge=True documents discontinuity across the segment edge: those edges are exempt",
]

_EDGE_LOCAL = [(0, 1), (2, 0), (1, 2)]
_LOC = {0: np.array([0.0, 0.0]), 1: np.array([1.0, 0.0]), 2: np.array([0.0, 1.0])}
_TS = np.array([0.2, 0.5, 0.85])


def _fail(sig, msg):
    raise Violation("C09/" + sig, msg)


def _mesh_and_space(desc):
    import bempp_cl.api

    m = mg.build(desc["mesh"])
    E = m["elements"].copy()
    doms = m["domains"]
    sd = desc["space"]
    # physically reverse the domains whose normals are declared swapped -> consistent effective orientation
    if sd.get("swapped") and desc.get("reverse_swapped", True):
        present = sorted(set(int(x) for x in doms))
        sw = {present[i % len(present)] for i in sd["swapped"]}
        flip = np.isin(doms, list(sw))
        E[:, flip] = E[[0, 2, 1]][:, flip]
    g = bempp_cl.api.Grid(m["vertices"], E, doms.astype("uint32"))
    return g, m, sd


def _edge_points(elem_vertices, a, b):
    """Local coordinates of 3 points on the edge with global vertices a-b inside an element."""
    ia = int(np.flatnonzero(elem_vertices == a)[0])
    ib = int(np.flatnonzero(elem_vertices == b)[0])
    return np.array([_LOC[ia] + t * (_LOC[ib] - _LOC[ia]) for t in _TS]).T


def check_space(desc):
    g, m, sd = _mesh_and_space(desc)
    kind = sd["kind"]
    kw = sg.space_kwargs(g, sd)
    req = sg.requested_support(g, kw)
    ibd, tr = sg.effective_options(kind, kw)
    labels = ["space", kind]
    proper = not bool(np.all(req))
    if proper:
        labels.append("proper_support")
        if kw.get("support_elements") is not None or not np.array_equal(np.flatnonzero(req), np.arange(req.sum())):
            labels.append("non_prefix_support")
    if kind in sg.EDGE_KINDS and not sg.support_is_manifold(g, kw):
        return {"nontrivial": False, "labels": ["skipped_nonmanifold_support"]}
    topo = mg.topology(np.asarray(g.elements))
    screen = len(topo["boundary_edges"]) > 0
    if not proper:
        supp_cls = "whole_open" if screen else "whole_closed"
    else:
        seg_open = any(0 < sum(1 for e in els if req[e]) < 2 for els in topo["edges"].values())
        supp_cls = "seg_open" if seg_open else "seg_closed"
    labels.append(supp_cls)
    # documented rejections
    if kind in ("BC", "RBC") and screen and ibd:
        try:
            sg.build_space(g, sd)
        except ValueError:
            return {"nontrivial": True, "labels": ["documented_rejection_bc_screen"]}
        _fail("reject/bc_screen_boundary_dofs", f"{kind} with include_boundary_dofs on a screen was not rejected")
    entities = sg.model_dof_entities(g, kind, kw)
    try:
        space, _ = sg.build_space(g, sd)
    except Exception as exc:  # noqa: BLE001
        msg = str(exc)
        if "connected only by a vertex" in msg and kind in sg.BARY_KINDS:
            return {"nontrivial": False, "labels": ["clean_rejection_vertex_connected"]}
        if len(entities) == 0:
            # empty selection: D14 class
            _fail(f"dofcount/empty_selection/{kind}", f"options select no entity; constructor raised {type(exc).__name__}: {msg[:200]}")
        from vlib.pbt import crash_signature
        cs = crash_signature(exc)
        if cs is None:
            raise
        _fail(f"construct/{kind}/{supp_cls}/tr{int(bool(tr))}/{cs}", f"constructor raised {type(exc).__name__}: {msg[:300]}")
    # ---- (e) dof count
    if len(entities) == 0:
        labels.append("empty_selection")
        if space.global_dof_count != 0:
            _fail(f"dofcount/empty_selection/{kind}", f"options select no entity but global_dof_count == {space.global_dof_count}")
        return {"nontrivial": False, "labels": labels}
    if space.global_dof_count != len(entities):
        _fail(f"dofcount/{kind}", f"global_dof_count {space.global_dof_count} != {len(entities)} entities selected by "
              f"(ibd={ibd}, trunc={tr}, support {int(req.sum())}/{len(req)})")
    sgrid = space.grid  # barycentric grid for dual/BC kinds
    Es = np.asarray(sgrid.elements).astype(int)
    Vs = np.asarray(sgrid.vertices)
    l2g = np.asarray(space.local2global).astype(int)
    mult = np.asarray(space.local_multipliers).astype(float)
    sup = np.asarray(space.support).astype(bool)
    # ---- (c) local2global <-> global2local
    g2l = space.global2local
    if len(g2l) != space.grid_dof_count:
        _fail(f"g2l/length/{kind}", f"global2local has {len(g2l)} entries, grid_dof_count {space.grid_dof_count}")
    seen = set()
    for gd, lst in enumerate(g2l):
        for (e, i) in lst:
            e, i = int(e), int(i)
            if (e, i) in seen:
                _fail(f"g2l/duplicate/{kind}", f"local dof {(e, i)} listed twice")
            seen.add((e, i))
            if l2g[e, i] != gd or mult[e, i] == 0:
                _fail(f"g2l/inverse/{kind}", f"global2local[{gd}] contains {(e, i)} but local2global={l2g[e, i]}, multiplier={mult[e, i]}")
    for e in np.flatnonzero(sup):
        for i in range(l2g.shape[1]):
            if mult[e, i] != 0 and (int(e), i) not in seen:
                _fail(f"g2l/missing/{kind}", f"local dof {(int(e), i)} with non-zero multiplier is missing from global2local[{l2g[e, i]}]")
    if np.any(mult[~sup] != 0):
        _fail(f"support/multipliers/{kind}", "non-zero multiplier outside the support")
    nm = np.asarray(space.normal_multipliers)
    if kw.get("swapped_normals"):
        coarse_dom = np.asarray(g.domain_indices)
        want = np.where(np.isin(coarse_dom, kw["swapped_normals"]), -1, 1)
        if kind in sg.BARY_KINDS:
            want = np.repeat(want, 6)
        if kind not in ("DUAL0", "DUAL1") and not np.array_equal(nm, want):
            _fail(f"normal_multipliers/{kind}", "normal multipliers do not follow swapped_normals")
    # ---- (d) entity attachment for primal spaces
    if kind == "P1":
        verts = set()
        for gd, lst in enumerate(g2l):
            vs = {int(Es[i, e]) for (e, i) in lst}
            if len(vs) != 1:
                _fail("attach/P1", f"dof {gd} is attached to vertices {sorted(vs)}")
            if any(mult[e, i] != 1 for (e, i) in lst):
                _fail("attach/P1", f"dof {gd} has a multiplier != 1")
            verts |= vs
        if {("vertex", v) for v in verts} != entities:
            _fail("attach/P1/entities", "dofs are not attached to exactly the selected vertices")
    if kind in ("RWG", "SNC"):
        ee = np.asarray(sgrid.element_edges)
        gedges = np.asarray(sgrid.edges)
        eds = set()
        for gd, lst in enumerate(g2l):
            es = {int(ee[i, e]) for (e, i) in lst}
            if len(es) != 1:
                _fail(f"attach/{kind}", f"dof {gd} is attached to edges {sorted(es)}")
            ed = es.pop()
            eds.add(("edge", int(min(gedges[:, ed])), int(max(gedges[:, ed]))))
            signs = sorted(mult[e, i] for (e, i) in lst)
            if len(lst) == 2 and signs != [-1.0, 1.0]:
                _fail(f"attach/{kind}/signs", f"dof {gd} multipliers {signs} (need +1 and -1)")
            if len(lst) == 1 and signs != [1.0]:
                _fail(f"attach/{kind}/signs", f"boundary dof {gd} multiplier {signs}")
            if len(lst) > 2:
                _fail(f"attach/{kind}", f"dof {gd} has {len(lst)} local dofs")
        if eds != entities:
            _fail(f"attach/{kind}/entities", "dofs are not attached to exactly the selected edges")
    if kind in ("DP0",):
        for gd, lst in enumerate(g2l):
            if len(lst) != 1:
                _fail("attach/DP0", f"dof {gd} attached to {len(lst)} elements")
    # ---- evaluate against library evaluator and check conformity / partition of unity
    rng = np.random.default_rng(int(desc.get("cseed", 0)))
    ndof = space.global_dof_count
    c = rng.standard_normal(ndof)
    gc = sg.grid_coeffs(space, c)
    cmax = float(np.max(np.abs(gc))) if len(gc) else 1.0
    # library evaluator agrees with the reference basis
    pts = np.array([[0.2, 0.6, 0.1], [0.3, 0.1, 0.7]])
    sample_elems = np.flatnonzero(sup)
    if len(sample_elems) > 12:
        sample_elems = sample_elems[rng.choice(len(sample_elems), 12, replace=False)]
    scale_f = 0.0
    # rounding of (x - p) grows with |coordinates| / element size
    cond = max(1.0, float(np.max(np.abs(Vs))) / (float(np.min(np.asarray(sgrid.diameters))) + 1e-300))
    tol_eval = 1e-11 + 4e-15 * cond
    for e in sample_elems:
        lib = space.evaluate(int(e), pts)
        ref = sg.ref_basis(space, int(e), pts)
        scale = max(1.0, float(np.max(np.abs(ref))))
        scale_f = max(scale_f, scale)
        if lib.shape != ref.shape or np.max(np.abs(lib - ref)) > tol_eval * scale:
            _fail(f"evaluate/{kind}", f"space.evaluate on element {int(e)} differs from the reference basis by {np.max(np.abs(lib - ref)):.2e}")
    # conformity
    stopo = mg.topology(Es)
    coarse_of = (lambda e: e // 6) if kind in sg.BARY_KINDS else (lambda e: e)
    njumps = 0
    nexempt = 0
    worst = 0.0
    if kind in ("P1", "RWG", "SNC", "BC", "RBC"):
        exempt_mode = (tr and ibd) if kind in ("P1", "RWG", "SNC") else tr
        for (a, b), elems in stopo["edges"].items():
            supp = [e for e in elems if sup[e]]
            if len(elems) == 2:
                pair = elems
            elif len(elems) > 2 and len(supp) == 2:
                pair = supp
            else:
                continue
            if not (sup[pair[0]] or sup[pair[1]]):
                continue
            r0, r1 = req[coarse_of(pair[0])], req[coarse_of(pair[1])]
            if exempt_mode and (r0 != r1):
                nexempt += 1
                continue
            vals = []
            for e in pair:
                lp = _edge_points(Es[:, e], a, b)
                vals.append(sg.eval_function(space, c, e, lp, gc))
            n0 = np.cross(Vs[:, Es[1, pair[0]]] - Vs[:, Es[0, pair[0]]], Vs[:, Es[2, pair[0]]] - Vs[:, Es[0, pair[0]]])
            n0 /= np.linalg.norm(n0)
            n1 = np.cross(Vs[:, Es[1, pair[1]]] - Vs[:, Es[0, pair[1]]], Vs[:, Es[2, pair[1]]] - Vs[:, Es[0, pair[1]]])
            n1 /= np.linalg.norm(n1)
            tau = Vs[:, b] - Vs[:, a]
            tau /= np.linalg.norm(tau)
            # floor: functions that vanish on this edge from both sides leave only rounding noise
            mag = max(np.max(np.abs(vals[0])), np.max(np.abs(vals[1])), 1e-6 * scale_f * cmax, 1e-300)
            if kind == "P1":
                jump = np.max(np.abs(vals[0] - vals[1]))
            elif kind in ("RWG", "BC"):
                # normal component w.r.t. the edge: conormals nu0 = tau x n0 (pointing out of/in to elem0) and the
                # matching in-plane conormal of elem1 continuing across the edge
                nu0 = np.cross(tau, n0)
                nu1 = np.cross(tau, n1)
                # orient both conormals to point from element 0 into element 1
                c0 = Vs[:, Es[:, pair[0]]].mean(axis=1)
                c1 = Vs[:, Es[:, pair[1]]].mean(axis=1)
                mid = 0.5 * (Vs[:, a] + Vs[:, b])
                if np.dot(nu0, mid - c0) < 0:
                    nu0 = -nu0
                if np.dot(nu1, c1 - mid) < 0:
                    nu1 = -nu1
                jump = np.max(np.abs(nu0 @ vals[0] - nu1 @ vals[1]))
            else:  # SNC, RBC: tangential component along the edge
                # only meaningful where the effective orientation is consistent across the edge
                def direction(e):
                    ev = list(Es[:, e])
                    ia, ib = ev.index(a), ev.index(b)
                    return 1 if (ib - ia) % 3 == 1 else -1

                consistent = (direction(pair[0]) * nm[pair[0]]) == -(direction(pair[1]) * nm[pair[1]])
                if not consistent:
                    nexempt += 1
                    continue
                jump = np.max(np.abs(tau @ vals[0] - tau @ vals[1]))
            njumps += 1
            worst = max(worst, jump / mag)
            if jump > 10 * tol_eval * mag:
                where = "segment-boundary" if r0 != r1 else "interior"
                _fail(f"conformity/{kind}/{where}/{supp_cls}/tr{int(bool(tr))}", f"jump {jump:.3e} (|f|~{mag:.2e}) across {where} edge {(a, b)} between elements {pair} "
                      f"(ibd={ibd}, trunc={tr})")
    # ---- (b) partition of unity
    pou = None
    closed_whole = (not screen) and not proper
    if kind in ("DP0",) or (kind == "P1" and (closed_whole or ibd)) or (kind == "DUAL0" and (closed_whole or ibd)) or (kind == "DUAL1" and closed_whole):
        ones = np.ones(ndof)
        gc1 = sg.grid_coeffs(space, ones)
        pou = 0.0
        for e in np.flatnonzero(sup):
            if not req[coarse_of(int(e))]:
                continue
            v = sg.eval_function(space, ones, int(e), pts, gc1)
            pou = max(pou, float(np.max(np.abs(v - 1.0))))
        if pou > 1e-12:
            _fail(f"partition_of_unity/{kind}/{supp_cls}/tr{int(bool(tr))}", f"sum of basis functions deviates from 1 by {pou:.3e} on the requested support")
        # support of the requested region must be covered
        for e in np.flatnonzero(req):
            if kind in sg.BARY_KINDS:
                if not all(sup[6 * e + j] for j in range(6)):
                    _fail(f"partition_of_unity/{kind}/cover", f"coarse element {int(e)} of the requested support is not covered")
            elif not sup[e]:
                _fail(f"partition_of_unity/{kind}/cover", f"element {int(e)} of the requested support is not in the space's support")
        labels.append("pou_checked")
    # ---- DUAL0 attachment: function of vertex v is 1 on the two bary cells per adjacent coarse element
    if kind == "DUAL0":
        coarse = np.asarray(g.elements).astype(int)
        T = space.dof_transformation.tocsc()
        if T.shape[1] != len(entities):
            _fail("attach/DUAL0", "dof transformation columns != selected vertices")
        cover = set()
        for j in range(T.shape[1]):
            rows = T.indices[T.indptr[j]: T.indptr[j + 1]]
            vals = T.data[T.indptr[j]: T.indptr[j + 1]]
            if len(rows) == 0 or np.any(np.abs(vals - 1) > 1e-14):
                _fail("attach/DUAL0/zero_basis", f"dual function {j} has {len(rows)} cells / values not 1")
            # bary cells -> bary element index
            belems = [int(np.flatnonzero(sup)[r]) for r in rows]
            first = {int(Es[0, be]) for be in belems}
            if len(first) != 1:
                _fail("attach/DUAL0/vertex", f"dual function {j} lives on bary cells of vertices {sorted(first)}")
            v = first.pop()
            cover.add(("vertex", v))
            # all bary cells at v inside (extended/truncated) support must be included
            star = [e for e in topo["vert_elems"][v] if (req[e] or not tr)]
            if len(belems) != 2 * len(star):
                _fail("attach/DUAL0/star", f"dual function of vertex {v} has {len(belems)} cells, expected {2 * len(star)}")
        if cover != entities:
            _fail("attach/DUAL0/entities", "dual functions are not attached to exactly the selected vertices")
    if kind in ("BC", "RBC"):
        # BC function of a coarse edge is supported in the stars of its end points and contains the cells at the edge
        coarse = np.asarray(g.elements).astype(int)
        T = space.dof_transformation.tocsc()
        supidx = np.flatnonzero(sup)
        ents = sorted(entities)
        if T.shape[1] != len(ents):
            _fail(f"attach/{kind}", "dof transformation columns != selected edges")
        found = set()
        for j in range(T.shape[1]):
            rows = T.indices[T.indptr[j]: T.indptr[j + 1]]
            vals = T.data[T.indptr[j]: T.indptr[j + 1]]
            rows = rows[np.abs(vals) > 1e-14]
            if len(rows) == 0:
                _fail(f"attach/{kind}/zero_basis", f"basis function {j} is identically zero")
            celems = {int(supidx[r // 3]) // 6 for r in rows}
            # find the coarse edge (a,b) whose vertex stars contain all these elements
            cands = []
            for (_, a, b) in ents:
                star = topo["vert_elems"][a] | topo["vert_elems"][b]
                if celems <= star and set(topo["edges"][(a, b)]) & celems:
                    cands.append((a, b))
            if not cands:
                _fail(f"attach/{kind}/support", f"basis function {j} is not supported in the vertex stars of any selected edge")
            found.add(tuple(cands))
        labels.append("bc_support_checked")
    nontrivial = proper or screen or any(sd.get(k) is not None for k in ("ibd", "trunc")) or m["used_amp"] > 0 or bool(desc["mesh"].get("edits"))
    if nexempt:
        labels.append("exempt_edges")
    if njumps:
        labels.append("conformity_checked")
    if sd.get("swapped"):
        labels.append("swapped_normals")
    if np.any(mult[sup] == 0):
        labels.append("zero_multiplier_dofs")
    labels.append("open_mesh" if screen else "closed_mesh")
    if sd.get("ibd") is not None or sd.get("trunc") is not None:
        labels.append(f"opts_ibd{int(bool(ibd))}_tr{int(bool(tr))}")
    return {"nontrivial": bool(nontrivial), "labels": labels,
            "measured": {"worst_rel_jump": worst, "edges_checked": njumps, "exempt": nexempt, "pou_dev": pou}}


def check_reject(desc):
    import bempp_cl.api

    g = mg.make_grid(desc["mesh"])
    what = desc["what"]
    try:
        if what == "both_selectors":
            bempp_cl.api.function_space(g, "P", 1, segments=[0], support_elements=np.array([0], dtype="uint32"))
        elif what == "unknown_kind":
            bempp_cl.api.function_space(g, desc.get("kind", "XX"), desc.get("degree", 0))
    except ValueError:
        return {"nontrivial": True, "labels": ["documented_rejection"]}
    _fail(f"reject/{what}", "invalid space request was not rejected with ValueError")


CHECKS = {"space": check_space, "reject": check_reject}

_GROUPS = {
    "scalar": ["DP0", "DP1", "P1"],
    "edge": ["RWG", "SNC"],
    "dual": ["DUAL0", "DUAL1"],
    "bc": ["BC", "RBC"],
}


def shards(tier, seed=1):
    q = tier == "quick"
    n = 1 if q else 12
    out = []
    plan = [("scalar", "closed", 90), ("scalar", "open", 90), ("edge", "closed", 70), ("edge", "open", 70), ("edge", "multitrace", 40),
            ("dual", "closed", 50), ("dual", "open", 40), ("bc", "closed", 30), ("bc", "open", 30), ("bc", "multitrace", 16), ("scalar", "multitrace", 40)]
    for grp, mk, ex in plan:
        out.append({"check": "space", "group": grp, "meshkind": mk, "examples": ex * n, "budget_s": 200 * n})
    out.append({"check": "reject", "examples": 20, "budget_s": 60})
    return out


def strategy(spec):
    from hypothesis import strategies as st

    if spec["check"] == "reject":
        @st.composite
        def r(draw):
            return {"mesh": draw(mg.mesh_descs("any", max_elems=20, domains=True)),
                    "what": draw(st.sampled_from(["both_selectors", "unknown_kind"])),
                    "kind": draw(st.sampled_from(["XX", "P", "DP", "RWG", "DUAL"])), "degree": draw(st.integers(2, 5))}
        return r()
    kinds = _GROUPS[spec["group"]]
    meshkind = spec["meshkind"]
    big = 40 if spec["group"] in ("bc", "dual") else 80

    @st.composite
    def s(draw):
        if meshkind == "multitrace":
            mesh = draw(mg.mesh_descs("multitrace", max_elems=60, relabel=True, max_edits=2, allow_refine=False))
            sd = {"kind": draw(st.sampled_from(kinds))}
            # the documented multitrace configuration: one box = outer faces + interface, interface normal swapped for box 2
            which = draw(st.sampled_from([1, 2]))
            sd["sel"] = ["segments", [which, 3]]
            if which == 2:
                sd["swapped"] = [3]
            if draw(st.booleans()):
                sd["ibd"] = draw(st.booleans())
                sd["trunc"] = draw(st.booleans())
            return {"mesh": mesh, "space": sd, "cseed": draw(st.integers(0, 1000)), "reverse_swapped": False}
        mesh = draw(mg.mesh_descs(meshkind, max_elems=big, domains=True))
        # patch-like labellings for barycentric kinds (scattered ones are rejected by design)
        if spec["group"] in ("bc", "dual") and mesh.get("domains", {}).get("mode") == "scatter" and draw(st.integers(0, 3)) != 0:
            mesh["domains"]["mode"] = "patch"
        sd = draw(sg.space_descs(kinds, swapped=draw(st.booleans())))
        return {"mesh": mesh, "space": sd, "cseed": draw(st.integers(0, 1000))}

    return s()


def required_labels(tier):
    return ["DP0", "DP1", "P1", "RWG", "SNC", "DUAL0", "DUAL1", "BC", "RBC", "proper_support", "non_prefix_support",
            "conformity_checked", "pou_checked", "exempt_edges", "open_mesh", "closed_mesh", "zero_multiplier_dofs",
            "documented_rejection", "swapped_normals"]

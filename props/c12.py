"""C12 Quadrature rules have their stated degree of exactness (finite, mostly exhaustive)."""

import itertools
import math

import numpy as np

from vlib.pbt import Violation
from vlib import refnum

LEVEL = "exploration"
RULE = (
    "Enumerated: every triangle order 1..20 x every monomial of total degree <= n; every Gauss n=1..30 x degree <= 2n-1; "
    "out-of-range lookups; every Duffy rule (3 adjacency types) x order x ALL 4-variable monomials of total degree <= 2n-4 "
    "(plus sharpness: degree 2n-3 must NOT be exact); every (adjacency, test remap, trial remap) combination (1+36+9) x fixed and "
    "Hypothesis-drawn physical triangle pairs against a closed-form/Richardson reference of int int 1/(4 pi |x-y|). "
    "A case is one (rule family, order, remap/geometry) tuple; all are non-trivial; distinct by tuple."
)
ORACLES = [
    "closed form a! b!/(a+b+2)! and 1/(d+1)",
    "product of closed forms for 4-variable monomials",
    "closed-form potential of a flat triangle (Wilton) + composite Gauss + Richardson, self-tested on the unit square",
]
ASSUMPTIONS = [
    "numpy leggauss and float64 arithmetic",
    "reference value of the singular pair integrals accurate to ~1e-11 relative (self-test on the unit square: 2e-12)",
]

TOL_TRI = 5e-13
TOL_GAUSS = 2e-13


def _tri(order):
    from bempp_cl.api.integration.triangle_gauss import rule, get_number_of_quad_points

    return rule(order), get_number_of_quad_points(order)


def check_tri(desc):
    n = desc["order"]
    (pts, w), npts = _tri(n)
    if pts.shape != (2, npts) or w.shape != (npts,):
        raise Violation(f"tri/npoints/order{n}", f"rule({n}) shapes {pts.shape},{w.shape} vs advertised {npts}")
    if abs(np.sum(w) - 0.5) > 1e-14:
        raise Violation(f"tri/weightsum/order{n}", f"weights sum to {np.sum(w)!r}")
    worst = 0.0
    for a in range(n + 1):
        for b in range(n + 1 - a):
            ex = refnum.monomial_integral_triangle(a, b)
            val = float(np.sum(w * pts[0] ** a * pts[1] ** b))
            rel = abs(val - ex) / ex
            worst = max(worst, rel)
            if rel > TOL_TRI:
                raise Violation(f"tri/monomial/order{n}", f"x^{a} y^{b}: {val!r} vs exact {ex!r} (rel {rel:.2e})")
    # symmetric versions: barycentric third coordinate too
    for a in range(n + 1):
        ex = refnum.monomial_integral_triangle(a, 0)
        val = float(np.sum(w * (1 - pts[0] - pts[1]) ** a))
        if abs(val - ex) / ex > TOL_TRI:
            raise Violation(f"tri/monomial/order{n}", f"(1-x-y)^{a}: {val!r} vs {ex!r}")
    return {
        "nontrivial": True,
        "labels": ["tri", "tri_negative_weights" if np.any(w < 0) else "tri_positive_weights",
                   "tri_points_outside" if np.any((pts < 0) | (pts.sum(0) > 1)) else "tri_points_inside"],
        "measured": {"worst_rel": worst},
    }


def check_gauss(desc):
    from bempp_cl.api.integration.gauss import rule

    n = desc["n"]
    x, w = rule(n)
    if len(x) != n or len(w) != n:
        raise Violation(f"gauss/npoints/n{n}", f"{len(x)} points")
    worst = 0.0
    for d in range(2 * n):
        val = float(np.sum(w * x**d))
        ex = 1.0 / (d + 1)
        rel = abs(val - ex) / ex
        worst = max(worst, rel)
        if rel > TOL_GAUSS:
            raise Violation(f"gauss/degree/n{n}", f"x^{d}: {val!r} vs {ex!r} (rel {rel:.2e})")
    if np.any(x <= 0) or np.any(x >= 1) or np.any(w <= 0):
        raise Violation(f"gauss/range/n{n}", "nodes must lie in (0,1) with positive weights")
    # sharpness: degree 2n must not be exact (detects a rule taken from order n+1)
    val = float(np.sum(w * x ** (2 * n)))
    if abs(val - 1.0 / (2 * n + 1)) * (2 * n + 1) < 1e-15 and n < 12:
        raise Violation(f"gauss/sharp/n{n}", "rule is more exact than an n-point rule can be")
    return {"nontrivial": True, "labels": ["gauss"], "measured": {"worst_rel": worst}}


def check_reject(desc):
    fam, order = desc["family"], desc["order"]
    if fam == "tri":
        from bempp_cl.api.integration.triangle_gauss import rule as f
    elif fam == "gauss":
        from bempp_cl.api.integration.gauss import rule as f
    else:
        from bempp_cl.api.integration.duffy_galerkin import rule as g

        def f(o):
            return g(o, desc.get("adj", "coincident"))

    try:
        f(order)
    except ValueError:
        return {"nontrivial": True, "labels": ["reject"]}
    except Exception as exc:  # noqa: BLE001
        raise Violation(f"reject/{fam}/wrongtype", f"order {order}: raised {type(exc).__name__} instead of ValueError")
    raise Violation(f"reject/{fam}/accepted", f"lookup of order {order} was not rejected")


def _mono4_table(maxdeg):
    return [
        (a, b, c, d)
        for a in range(maxdeg + 1)
        for b in range(maxdeg + 1 - a)
        for c in range(maxdeg + 1 - a - b)
        for d in range(maxdeg + 1 - a - b - c)
    ]


_NPTS = {"coincident": 6, "edge_adjacent": 5, "vertex_adjacent": 2}


def check_duffy_poly(desc):
    from bempp_cl.api.integration import duffy_galerkin as dg

    n, adj = desc["order"], desc["adj"]
    pt, ps, w = dg.rule(n, adj)
    want = _NPTS[adj] * n**4
    if dg.number_of_quadrature_points(n, adj) != want or pt.shape != (2, want) or ps.shape != (2, want) or w.shape != (want,):
        raise Violation(f"duffy/npoints/{adj}", f"order {n}: shapes {pt.shape} {ps.shape} {w.shape}, advertised "
                        f"{dg.number_of_quadrature_points(n, adj)}, expected {want}")
    for arr, nm in ((pt, "test"), (ps, "trial")):
        if np.any(arr < -1e-14) or np.any(arr.sum(0) > 1 + 1e-14):
            raise Violation(f"duffy/outside/{adj}", f"order {n}: {nm} points outside the reference triangle")
    if np.any(w <= 0):
        raise Violation(f"duffy/weights/{adj}", f"order {n}: non-positive weight")
    maxdeg = 2 * n - 4
    monos = desc.get("monomials")
    if monos is None:
        monos = _mono4_table(max(maxdeg, 0))
    P = [np.vander(v, maxdeg + 2, increasing=True) for v in (pt[0], pt[1], ps[0], ps[1])]
    worst = 0.0
    for a, b, c, d in monos:
        val = float(np.sum(w * P[0][:, a] * P[1][:, b] * P[2][:, c] * P[3][:, d]))
        ex = refnum.monomial_integral_triangle(a, b) * refnum.monomial_integral_triangle(c, d)
        rel = abs(val - ex) / ex
        worst = max(worst, rel)
        if rel > 2e-12:
            raise Violation(f"duffy/poly/{adj}", f"order {n}: x1^{a} x2^{b} y1^{c} y2^{d}: {val!r} vs {ex!r} (rel {rel:.2e})")
    # sharpness: some monomial of degree 2n-3 is not integrated exactly
    sharp = None
    if maxdeg + 1 >= 1 and n <= 8:
        deg = maxdeg + 1
        errs = []
        for a, b, c, d in _mono4_table(deg):
            if a + b + c + d != deg:
                continue
            val = float(np.sum(w * P[0][:, a] * P[1][:, b] * P[2][:, c] * P[3][:, d]))
            ex = refnum.monomial_integral_triangle(a, b) * refnum.monomial_integral_triangle(c, d)
            errs.append(abs(val - ex) / ex)
        sharp = max(errs)
        if sharp < 1e-10:
            raise Violation(f"duffy/sharp/{adj}", f"order {n}: degree {deg} integrated exactly; rule is not built from the {n}-point Gauss rule")
    return {"nontrivial": True, "labels": ["duffy_poly", adj], "measured": {"worst_rel": worst, "sharp_err": sharp}}


# ---------------------------------------------------------------- remaps against physical reference
_GEOMS = {
    "coplanar": ([0, 0, 0], [1, 0, 0], [0.3, 0.8, 0], [0.6, -0.9, 0]),
    "folded": ([0, 0, 0], [1, 0, 0], [0.4, 0.7, 0], [0.5, 0.0, 0.8]),
    "acute": ([0.1, 0.2, 0.3], [1.1, 0.4, 0.2], [0.5, 1.0, 0.6], [0.7, -0.5, 0.9]),
    "obtuse": ([0, 0, 0], [1, 0, 0], [0.85, 0.5, 0.1], [0.2, -0.6, 0.3]),
}
_REF_CACHE = {}


def _phys(tv, pts):
    return tv[0][:, None] + np.outer(tv[1] - tv[0], pts[0]) + np.outer(tv[2] - tv[0], pts[1])


def _ladder_value(adj, order, tv, sv, tmap, smap):
    from bempp_cl.api.integration import duffy_galerkin as dg

    pt, ps, w = dg.rule(order, adj)
    if adj == "edge_adjacent":
        pt = dg.remap_points_shared_edge(pt, tmap[0], tmap[1])
        ps = dg.remap_points_shared_edge(ps, smap[0], smap[1])
    elif adj == "vertex_adjacent":
        pt = dg.remap_points_shared_vertex(pt, tmap[0])
        ps = dg.remap_points_shared_vertex(ps, smap[0])
    x = _phys(tv, pt)
    y = _phys(sv, ps)
    r = np.linalg.norm(x - y, axis=0)
    iet = np.linalg.norm(np.cross(tv[1] - tv[0], tv[2] - tv[0]))
    ies = np.linalg.norm(np.cross(sv[1] - sv[0], sv[2] - sv[0]))
    return float(np.sum(w / r) * iet * ies / (4 * math.pi))


def check_remap(desc):
    adj = desc["adj"]
    g = desc["geom"]
    if isinstance(g, str):
        p, q, a, b = (np.array(v, dtype=float) for v in _GEOMS[g])
    else:
        p, q, a, b = (np.array(v, dtype=float) for v in g)
    tmap, smap = desc["tmap"], desc["smap"]
    if adj == "coincident":
        base_t = [p, q, a]
        base_s = [p, q, a]
        tv, sv = base_t, base_s
    elif adj == "edge_adjacent":
        tv = [None] * 3
        tv[tmap[0]], tv[tmap[1]], tv[3 - tmap[0] - tmap[1]] = p, q, a
        sv = [None] * 3
        sv[smap[0]], sv[smap[1]], sv[3 - smap[0] - smap[1]] = p, q, b
    else:
        # share only p; test triangle (p, q, a), trial triangle (p, b, c) with c = reflected point
        c = 2 * p - q + 0.3 * (b - p)
        others_t = [q, a]
        others_s = [b, c]
        tv = [None] * 3
        tv[tmap[0]] = p
        rest = [i for i in range(3) if i != tmap[0]]
        tv[rest[0]], tv[rest[1]] = others_t
        sv = [None] * 3
        sv[smap[0]] = p
        rest = [i for i in range(3) if i != smap[0]]
        sv[rest[0]], sv[rest[1]] = others_s
    key = (adj, str(g))
    if key not in _REF_CACHE:
        # reference is independent of the local labelling
        if adj == "coincident":
            _REF_CACHE[key] = refnum.laplace_pair_reference_rich([p, q, a], [p, q, a])
        elif adj == "edge_adjacent":
            _REF_CACHE[key] = refnum.laplace_pair_reference_rich([p, q, a], [p, q, b])
        else:
            c = 2 * p - q + 0.3 * (b - p)
            _REF_CACHE[key] = refnum.laplace_pair_reference_rich([p, q, a], [p, b, c])
    ref, ref_err = _REF_CACHE[key]
    orders = desc.get("orders", [2, 3, 4, 5, 6, 7, 8])
    errs = []
    tag = f"remap/{adj}/t{''.join(map(str, tmap))}_s{''.join(map(str, smap))}"
    canon_t, canon_s = ([0, 1], [0, 1]) if adj == "edge_adjacent" else ([0], [0])
    for n in orders:
        val = _ladder_value(adj, n, tv, sv, tmap, smap)
        errs.append(abs(val - ref) / abs(ref))
        if adj != "coincident" and (tmap != canon_t or smap != canon_s):
            # a relabelling maps the SAME physical quadrature points: value equal to rounding
            if adj == "edge_adjacent":
                ctv, csv = [p, q, a], [p, q, b]
            else:
                c = 2 * p - q + 0.3 * (b - p)
                ctv, csv = [p, q, a], [p, b, c]
            cval = _ladder_value(adj, n, ctv, csv, canon_t, canon_s)
            if abs(val - cval) > 1e-11 * abs(cval):
                raise Violation(tag + "/relabel", f"order {n}: remapped rule gives {val!r}, canonical labelling {cval!r} "
                                f"(rel diff {abs(val - cval) / abs(cval):.2e}); the remap does not reproduce the same physical points")
    floor = max(1e-10, 20 * ref_err / abs(ref))
    # geometric convergence: err(n) <= A rho^n (calibrated on 400 generated pairs, >= 10x margin), down to the reference floor
    rho = {"coincident": 0.25, "edge_adjacent": 0.30, "vertex_adjacent": 0.34}[adj]
    for n, e in zip(orders, errs):
        env = 1.0 * rho**n
        if e > max(env, floor):
            raise Violation(tag, f"order {n}: rel. error {e:.3e} above envelope {max(env, floor):.3e} (errors {['%.1e' % v for v in errs]}, geom {g})")
    return {"nontrivial": True, "labels": ["remap", adj], "measured": {"errors": errs, "floor": floor}}


def check_collocation(desc):
    """duffy_collocation rules: polynomial exactness on their triangles."""
    from bempp_cl.api.integration import duffy_collocation as dc

    n = desc["order"]
    pts, w = dc.duffy_rule_on_reference_triangle(n)
    # triangle (0,0),(1,0),(1,1): int x^a y^b = 1/((b+1)(a+b+2))
    for a in range(2 * n - 1):
        for b in range(2 * n - 1 - a):
            if a + b > 2 * n - 2:
                continue
            val = float(np.sum(w * pts[0] ** a * pts[1] ** b))
            ex = 1.0 / ((b + 1) * (a + b + 2))
            if abs(val - ex) / ex > 1e-12:
                raise Violation("colloc/duffy", f"order {n}: x^{a} y^{b} {val!r} vs {ex!r}")
    pts, w = dc.singular_collocation_rule_piecewise_const(n)
    for a in range(2 * n - 1):
        for b in range(2 * n - 1 - a):
            if a + b > 2 * n - 2:
                continue
            val = float(np.sum(w * pts[0] ** a * pts[1] ** b))
            ex = refnum.monomial_integral_triangle(a, b)
            if abs(val - ex) / ex > 1e-12:
                raise Violation("colloc/piecewise_const", f"order {n}: x^{a} y^{b} {val!r} vs {ex!r}")
    return {"nontrivial": True, "labels": ["collocation"]}


CHECKS = {
    "tri": check_tri,
    "gauss": check_gauss,
    "reject": check_reject,
    "duffy_poly": check_duffy_poly,
    "remap": check_remap,
    "remap_random": check_remap,
    "duffy_poly_sampled": check_duffy_poly,
    "collocation": check_collocation,
}

_EDGE_MAPS = [(0, 1), (1, 0), (1, 2), (2, 1), (0, 2), (2, 0)]


def setup(spec):
    refnum.self_test()


def shards(tier, seed=1):
    out = [{"check": "tri"}, {"check": "gauss"}, {"check": "reject"}, {"check": "collocation"}]
    top = 7 if tier == "quick" else 10
    for adj in _NPTS:
        out.append({"check": "duffy_poly", "adj": [adj], "orders": list(range(2, top + 1))})
    for g in list(_GEOMS):
        out.append({"check": "remap", "geom": g})
    out.append({"check": "remap_random", "examples": 40 if tier == "quick" else 400, "budget_s": 150 if tier == "quick" else 1200})
    if tier == "thorough":
        for adj in _NPTS:
            out.append({"check": "duffy_poly_sampled", "adj": adj, "examples": 60, "budget_s": 900})
    return out


def cases(spec):
    c = spec["check"]
    if c == "tri":
        return [{"order": n} for n in range(1, 21)]
    if c == "gauss":
        return [{"n": n} for n in range(1, 31)]
    if c == "collocation":
        return [{"order": n} for n in range(1, 13)]
    if c == "reject":
        out = []
        for fam, bad in (("tri", [0, -1, 21, 22, 100]), ("gauss", [0, -1, 31, 32, 100])):
            out += [{"family": fam, "order": o} for o in bad]
        out += [{"family": "duffy", "order": o, "adj": a} for o in (0, 31) for a in _NPTS]
        return out
    if c == "duffy_poly":
        return [{"order": n, "adj": a} for a in spec["adj"] for n in spec["orders"]]
    if c == "remap":
        g = spec["geom"]
        out = [{"adj": "coincident", "geom": g, "tmap": [0], "smap": [0]}]
        for t in _EDGE_MAPS:
            for s in _EDGE_MAPS:
                out.append({"adj": "edge_adjacent", "geom": g, "tmap": list(t), "smap": list(s)})
        for t in range(3):
            for s in range(3):
                out.append({"adj": "vertex_adjacent", "geom": g, "tmap": [t], "smap": [s]})
        return out
    return None


def strategy(spec):
    from hypothesis import strategies as st

    if spec["check"] == "duffy_poly_sampled":
        adj = spec["adj"]

        @st.composite
        def s(draw):
            n = draw(st.integers(11, 16))
            maxdeg = 2 * n - 4
            monos = []
            for _ in range(draw(st.integers(3, 12))):
                tot = draw(st.integers(maxdeg - 3, maxdeg))
                a = draw(st.integers(0, tot))
                b = draw(st.integers(0, tot - a))
                c = draw(st.integers(0, tot - a - b))
                monos.append([a, b, c, tot - a - b - c])
            return {"order": n, "adj": adj, "monomials": monos}

        return s()

    @st.composite
    def geom(draw):
        # shared edge p-q of unit length; apexes drawn constructively with bounded shape
        adj = draw(st.sampled_from(["edge_adjacent", "vertex_adjacent", "coincident"]))
        ha = draw(st.floats(0.45, 1.3))
        ta = draw(st.floats(0.15, 0.85))
        hb = draw(st.floats(0.45, 1.3))
        tb = draw(st.floats(0.15, 0.85))
        phi = draw(st.floats(math.pi / 3, 5 * math.pi / 3))  # dihedral angle, away from folding flat onto each other
        scale = 10.0 ** draw(st.integers(-2, 2))
        p = np.zeros(3)
        q = np.array([1.0, 0, 0])
        a = np.array([ta, ha, 0.0])
        b = np.array([tb, hb * math.cos(phi), hb * math.sin(phi)])
        pts = [list(map(float, scale * v)) for v in (p, q, a, b)]
        if adj == "edge_adjacent":
            t = draw(st.sampled_from(_EDGE_MAPS))
            s_ = draw(st.sampled_from(_EDGE_MAPS))
            tm, sm = list(t), list(s_)
        elif adj == "vertex_adjacent":
            tm, sm = [draw(st.integers(0, 2))], [draw(st.integers(0, 2))]
        else:
            tm, sm = [0], [0]
        return {"adj": adj, "geom": pts, "tmap": tm, "smap": sm, "orders": [2, 3, 4, 5, 6, 7, 8, 9, 10]}

    return geom()


def exhaustive(tier):
    return True


def required_labels(tier):
    return ["tri", "gauss", "reject", "duffy_poly", "remap", "coincident", "edge_adjacent", "vertex_adjacent"]

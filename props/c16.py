"""C16 Assembly results are independent of thread count and scheduling."""

import numpy as np

from vlib.pbt import Violation
from vlib import meshgen as mg
from vlib import spacegen as sg
from vlib import opgen as og

LEVEL = "exploration"
RULE = (
    "(a) colouring invariant on every generated (mesh, space descriptor) incl. segments, zero-multiplier dofs and barycentric spaces: "
    "for every colour the row sets {local2global[e, :]} over ALL local dofs of its elements are pairwise disjoint, and "
    "get_elements_by_color is a partition of the support consistent with color_map; (b) iteration independence: potential at all points at "
    "once vs one point per call, bitwise; (c) bitwise equality of dense matrices and potentials for 1, 2, 7 and 16 threads "
    "(numba.set_num_threads), repeated and interleaved with other assemblies and concurrent Python threads. Non-trivial: a space where some "
    "colour holds >= 2 elements and some dof is shared by >= 2 elements; for (c) >= 2 threads and >= 2 test elements per colour. "
    "Schedules are sampled, not controlled: the decision rests on (a)+(b)."
)
ORACLES = ["write-set disjointness invariant", "batched vs isolated evaluation (bitwise)", "bitwise comparison across thread counts"]
ASSUMPTIONS = ["Numba's OpenMP/workqueue schedule cannot be owned by the harness; (c) is corroboration by sampling"]


def _fail(sig, msg):
    raise Violation("C16/" + sig, msg)


def check_colouring(desc):
    g = mg.make_grid(desc["mesh"])
    sd = desc["space"]
    kind = sd["kind"]
    kw = sg.space_kwargs(g, sd)
    if kind in sg.EDGE_KINDS and not sg.support_is_manifold(g, kw):
        return {"nontrivial": False, "labels": ["skipped"]}
    if len(sg.model_dof_entities(g, kind, kw)) == 0:
        return {"nontrivial": False, "labels": ["skipped_empty"]}
    n_prior = 0
    for pr in desc.get("prior", []):
        # history: other spaces of the same kind over the same elements (different boundary-dof / truncation options) are created and
        # coloured first on the SAME grid object; the colouring of the space under test must not depend on them
        sdp = dict(sd)
        sdp.update({k_: v for k_, v in pr.items() if k_ in ("ibd", "trunc")})
        if kind in ("DP0", "DP1") or len(sg.model_dof_entities(g, kind, sg.space_kwargs(g, sdp))) == 0:
            continue
        try:
            spp, _ = sg.build_space(g, sdp)
            np.asarray(spp.color_map)
            n_prior += 1
        except Exception:  # noqa: BLE001  (clean rejections of option combinations are judged by C09)
            pass
    try:
        space, _ = sg.build_space(g, sd)
    except Exception as exc:  # noqa: BLE001
        if "connected only by a vertex" in str(exc) or (kind in ("BC", "RBC") and isinstance(exc, ValueError)):
            return {"nontrivial": False, "labels": ["clean_rejection"]}
        raise
    spaces = [("space", space)]
    if desc.get("localised"):
        spaces.append(("localised", space.localised_space))
    if desc.get("bary") and kind in ("DP0", "P1", "RWG", "SNC"):
        spaces.append(("bary", space.barycentric_representation()))
    labels = ["colouring", kind]
    nontrivial = False
    for nm, sp in spaces:
        cm = np.asarray(sp.color_map)
        sup = np.asarray(sp.support).astype(bool)
        l2g = np.asarray(sp.local2global).astype(int)
        if np.any(cm[sup] < 0) or np.any(cm[~sup] != -1):
            _fail(f"color_map/support/{kind}/{nm}", "colour map is not defined exactly on the support")
        idx, ptr = sp.get_elements_by_color()
        idx, ptr = np.asarray(idx).astype(int), np.asarray(ptr).astype(int)
        if sorted(idx.tolist()) != sorted(np.flatnonzero(sup).tolist()):
            _fail(f"elements_by_color/partition/{kind}/{nm}", "get_elements_by_color is not a partition of the support")
        shared = False
        owner = {}
        for c in range(len(ptr) - 1):
            elems = idx[ptr[c]: ptr[c + 1]]
            if len(elems) == 0:
                _fail(f"elements_by_color/empty/{kind}/{nm}", f"colour {c} is empty")
            if np.any(cm[elems] != c):
                _fail(f"elements_by_color/consistency/{kind}/{nm}", f"elements listed under colour {c} have other colours in color_map")
            rows = {}
            for e in elems:
                for dof in set(l2g[e].tolist()):
                    if dof in rows:
                        _fail(f"colouring/conflict/{kind}/{nm}", f"elements {rows[dof]} and {int(e)} share global dof {dof} (all local dofs, zero multiplier or not) "
                              f"but both have colour {c}: concurrent += on the same matrix row")
                    rows[dof] = int(e)
            if len(elems) >= 2:
                nontrivial = True
        for e in np.flatnonzero(sup):
            for dof in l2g[e]:
                owner.setdefault(int(dof), set()).add(int(e))
        shared = any(len(v) > 1 for v in owner.values())
        if shared:
            labels.append("shared_dofs")
        if np.any(np.asarray(sp.local_multipliers)[sup] == 0):
            labels.append("zero_multiplier_dofs")
        labels.append(nm)
    if sd.get("sel"):
        labels.append("segment")
    if n_prior:
        labels.append("after_other_spaces_on_same_grid")
    return {"nontrivial": nontrivial and "shared_dofs" in labels, "labels": sorted(set(labels))}


def check_isolation(desc):
    """Potential values must not depend on which other points are evaluated with them (bitwise)."""
    import bempp_cl.api

    g = mg.make_grid(desc["mesh"])
    sd = desc["space"]
    kw = sg.space_kwargs(g, sd)
    if sd["kind"] in sg.EDGE_KINDS and not sg.support_is_manifold(g, kw):
        return {"nontrivial": False, "labels": ["skipped"]}
    if len(sg.model_dof_entities(g, sd["kind"], kw)) == 0:
        return {"nontrivial": False, "labels": ["skipped"]}
    space, _ = sg.build_space(g, sd)
    fam, op = desc["fam"], desc["op"]
    k = og.wavenumber(desc["k"]) if desc.get("k") is not None else None
    V = np.asarray(g.vertices)
    c = V.mean(axis=1)
    R = np.max(np.linalg.norm(V - c[:, None], axis=0))
    rng = np.random.default_rng(desc["seed"])
    dirs = rng.standard_normal((3, 9))
    X = np.asfortranarray(c[:, None] + dirs / np.linalg.norm(dirs, axis=0) * R * rng.uniform(2, 5, 9))
    coef = rng.standard_normal(space.global_dof_count)
    gf = bempp_cl.api.GridFunction(space, coefficients=coef)
    par = og.make_params(desc["order"], 4)
    allv = og.potential_operator(fam, op, space, X, k, parameters=par).evaluate(gf)
    for j in range(X.shape[1]):
        one = og.potential_operator(fam, op, space, np.asfortranarray(X[:, [j]]), k, parameters=par).evaluate(gf)
        if one.tobytes() != np.ascontiguousarray(allv[:, [j]]).tobytes():
            _fail(f"isolation/potential/{fam}_{op}", f"value at point {j} differs bitwise between batched and single-point evaluation "
                  f"({allv[:, j]} vs {one[:, 0]}): iterations of the parallel point loop are not independent")
    return {"nontrivial": True, "labels": ["isolation", f"{fam}_{op}"]}


_CASES = {}


def _thread_cases():
    if _CASES:
        return _CASES
    import bempp_cl.api

    g = mg.make_grid({"base": "icosa", "edits": [["refine"]], "amp": 0.1, "gseed": 3, "cls": "regular",
                      "domains": {"mode": "patch", "n": 3, "seed": 5, "values": [0, 3, 7, 12]}, "relabel": 11})
    p1 = bempp_cl.api.function_space(g, "P", 1)
    p1s = bempp_cl.api.function_space(g, "P", 1, segments=[3, 7], include_boundary_dofs=True)
    dp0 = bempp_cl.api.function_space(g, "DP", 0)
    rwg = bempp_cl.api.function_space(g, "RWG", 0)
    rwgs = bempp_cl.api.function_space(g, "RWG", 0, segments=[0, 7])
    snc = bempp_cl.api.function_space(g, "SNC", 0)
    sncs = bempp_cl.api.function_space(g, "SNC", 0, segments=[0, 7])
    V = np.asarray(g.vertices)
    c = V.mean(axis=1)
    X = np.asfortranarray(c[:, None] + 4.0 * np.array([[1, 0, 0.2], [0, 1, 0.5], [-1, 0.3, 0], [0.2, -1, 1], [1, 1, 1], [0, 0, -1.5], [2, 0.1, 0.1]]).T)
    rng = np.random.default_rng(2)
    par = og.make_params(4, 4)
    _CASES.update({
        "laplace_V_p1": lambda: og.dense(og.boundary_operator("laplace", "V", p1, p1, p1, parameters=par)),
        "laplace_K_p1_dp0": lambda: og.dense(og.boundary_operator("laplace", "K", p1, dp0, dp0, parameters=par)),
        "helmholtz_W_segment": lambda: og.dense(og.boundary_operator("helmholtz", "W", p1s, p1s, p1s, 1.3 + 0.2j, parameters=par)),
        "maxwell_E": lambda: og.dense(og.boundary_operator("maxwell", "E", rwg, rwg, snc, 1.1, parameters=par)),
        "maxwell_M_segment": lambda: og.dense(og.boundary_operator("maxwell", "M", rwgs, rwgs, sncs, 0.8 + 0.1j, parameters=par)),
        "potential_helmholtz_K": lambda c=rng.standard_normal(p1.global_dof_count): og.potential_operator(
            "helmholtz", "K", p1, X, 1.3, parameters=par).evaluate(bempp_cl.api.GridFunction(p1, coefficients=c)),
        "potential_maxwell_E": lambda c=rng.standard_normal(rwg.global_dof_count): og.potential_operator(
            "maxwell", "E", rwg, X, 1.1, parameters=par).evaluate(bempp_cl.api.GridFunction(rwg, coefficients=c)),
        "identity_p1": lambda: og.boundary_operator("sparse", "I", p1, p1, p1, parameters=par).weak_form().to_sparse().toarray(),
    })
    _CASES["_spaces"] = {"p1": p1, "rwg": rwg}
    return _CASES


def check_threads(desc):
    import numba
    import threading

    cases = _thread_cases()
    name = desc["case"]
    fn = cases[name]
    maxt = numba.config.NUMBA_NUM_THREADS
    counts = [t for t in desc["threads"] if t <= maxt]
    if len(counts) < 2:
        return {"nontrivial": False, "labels": ["skipped_not_enough_threads"]}
    numba.set_num_threads(1)
    ref = fn()
    refb = ref.tobytes()
    other = cases[desc["interleave"]] if desc.get("interleave") else None
    for t in counts:
        numba.set_num_threads(t)
        for rep in range(desc["reps"]):
            if other is not None and rep % 2 == 1:
                other()
            if desc.get("concurrent") and rep == 0 and other is not None:
                out = {}
                th = threading.Thread(target=lambda: out.setdefault("o", other()))
                th.start()
                got = fn()
                th.join()
            else:
                got = fn()
            if got.tobytes() != refb:
                diff = float(np.max(np.abs(got - ref)))
                _fail(f"threads/{name}", f"result with {t} threads (repetition {rep}) differs bitwise from the 1-thread result (max abs diff {diff:.3e})")
    numba.set_num_threads(min(2, maxt))
    return {"nontrivial": max(counts) >= 2, "labels": ["threads", name, f"maxthreads{max(counts)}"]}


CHECKS = {"colouring": check_colouring, "isolation": check_isolation, "threads": check_threads}


def shards(tier, seed=1):
    q = tier == "quick"
    n = 1 if q else 10
    out = []
    for grp, ex in ((["DP0", "DP1", "P1", "RWG", "SNC"], 120), (["DUAL0", "DUAL1", "BC", "RBC"], 40)):
        for mk in ("closed", "open"):
            out.append({"check": "colouring", "kinds": grp, "meshkind": mk, "examples": ex * n, "budget_s": 200 * n})
    out.append({"check": "colouring", "kinds": ["RWG", "SNC", "P1", "BC"], "meshkind": "multitrace", "examples": 30 * n, "budget_s": 150 * n})
    for mk in ("closed", "open"):
        out.append({"check": "colouring", "kinds": ["P1", "RWG", "SNC", "DUAL0"], "meshkind": mk, "history": True, "examples": 60 * n, "budget_s": 150 * n})
    out.append({"check": "isolation", "examples": 8 * n, "budget_s": 240 * n})
    out.append({"check": "threads", "threads": 16, "budget_s": 600 * (1 if q else 4), "reps": 3 if q else 12, "quick": q})
    return out


def cases(spec):
    if spec["check"] != "threads":
        return None
    names = ["laplace_V_p1", "laplace_K_p1_dp0", "helmholtz_W_segment", "maxwell_E", "maxwell_M_segment", "potential_helmholtz_K",
             "potential_maxwell_E", "identity_p1"]
    out = []
    for i, nme in enumerate(names):
        out.append({"case": nme, "threads": [2, 7, 16], "reps": spec["reps"], "interleave": names[(i + 3) % len(names)], "concurrent": i % 2 == 0})
    return out


def strategy(spec):
    from hypothesis import strategies as st

    if spec["check"] == "colouring":
        mk = spec["meshkind"]

        @st.composite
        def s(draw):
            if mk == "multitrace":
                mesh = draw(mg.mesh_descs("multitrace", max_elems=60, relabel=True, max_edits=2, allow_refine=False))
                sd = {"kind": draw(st.sampled_from(spec["kinds"])), "sel": ["segments", [draw(st.sampled_from([1, 2])), 3]]}
                if draw(st.booleans()):
                    sd["ibd"] = draw(st.booleans())
                    sd["trunc"] = draw(st.booleans())
            else:
                mesh = draw(mg.mesh_descs(mk, max_elems=60 if spec["kinds"][0] not in ("BC", "DUAL0") else 30, domains=True))
                if spec["kinds"][0] in ("BC", "DUAL0") and mesh.get("domains", {}).get("mode") == "scatter":
                    mesh["domains"]["mode"] = "patch"
                sd = draw(sg.space_descs(spec["kinds"]))
            hist = bool(spec.get("history"))
            prior = draw(st.lists(st.fixed_dictionaries({"ibd": st.booleans(), "trunc": st.booleans()}), min_size=1 if hist else 0, max_size=2))
            if prior and sd["kind"] not in ("DP0", "DP1", "DUAL1") and (hist or draw(st.booleans())):
                sd["ibd"] = not prior[0]["ibd"]  # same elements, different boundary-dof option than the space created first
                if hist and draw(st.integers(0, 2)) > 0:
                    sd["trunc"] = prior[0]["trunc"]
                if hist and not sd.get("sel") and mk != "multitrace" and draw(st.integers(0, 3)) > 0:
                    sd["sel"] = ["segments", [draw(st.integers(0, 3))]]
                    if mesh.get("domains", {}).get("mode") in ("all0", "scatter") or mesh.get("domains", {}).get("n", 1) < 2:
                        mesh["domains"]["mode"], mesh["domains"]["n"] = "patch", 2
            return {"mesh": mesh, "space": sd, "localised": draw(st.booleans()), "bary": draw(st.booleans()), "prior": prior}
        return s()

    @st.composite
    def s(draw):
        fam, op = draw(st.sampled_from([("laplace", "V"), ("laplace", "K"), ("helmholtz", "V"), ("helmholtz", "K"), ("modified", "V"),
                                        ("maxwell", "E"), ("maxwell", "M")]))
        vec = fam == "maxwell"
        mesh = draw(mg.mesh_descs("closed" if vec else "any", max_elems=30, domains=True, max_edits=2, allow_refine=False))
        if vec and mesh.get("domains", {}).get("mode") == "scatter":
            mesh["domains"]["mode"] = "patch"
        k = None if fam == "laplace" else ([1.0, 0] if fam == "modified" else draw(st.sampled_from([[1.0, 0], [1.5, 0.5]])))
        return {"mesh": mesh, "space": draw(sg.space_descs(["RWG"] if vec else ["DP0", "P1", "DP1"])), "fam": fam, "op": op, "k": k,
                "order": draw(st.integers(2, 6)), "seed": draw(st.integers(0, 99))}
    return s()


def required_labels(tier):
    return ["colouring", "shared_dofs", "zero_multiplier_dofs", "segment", "bary", "localised", "isolation", "threads", "maxthreads16",
            "P1", "RWG", "SNC", "BC", "DUAL0", "DUAL1", "DP1"]

"""C18 Results depend only on explicit arguments, not on process history."""

import numpy as np

from vlib.pbt import Violation
from vlib import meshgen as mg
from vlib import opgen as og

LEVEL = "exploration"
RULE = (
    "Histories = generated lists of API steps (shrunk as one value, stored as the replay descriptor): set global quadrature orders, set "
    "global FMM parameters, create operator (family, op, spaces on one of two grids or on a second Grid object with identical arrays, "
    "wavenumber, assembler dense/fmm/sparse, precision, parameters None or an explicit object), weak_form, strong_form, apply to a grid "
    "function, mutate an explicit parameter object, clear_fmm_cache, mass_matrix, evaluate a potential (dense/fmm). After every "
    "assembling step the result is compared with a from-scratch oracle (fresh Grid/space objects, fresh DefaultParameters carrying the "
    "*effective* values = values of the operator's parameter object at its first assembly, dense assembler, no global state); cached "
    "results must not change afterwards; weak_form() is weak_form(). Non-trivial = history with a global parameter change or cache clear "
    "between two assemblies on the same grid; distinct by normalised step list."
)
ORACLES = ["reference model: stateless recomputation with explicit effective parameters", "cached object identity", "single vs double precision agreement"]
ASSUMPTIONS = [
    "parameters=None is the documented alias of the global object (assign_parameters docstring): its values at first assembly are the inputs",
    "the oracle runs in the same interpreter with fresh objects; thorough tier additionally recomputes sampled results in a brand-new interpreter",
]

_G = {}


def _fail(sig, msg):
    raise Violation("C18/" + sig, msg)


_MESHES = [
    {"base": "octa", "edits": [["edge", 3]], "amp": 0.1, "gseed": 4, "cls": "regular"},
    {"base": "tetra", "amp": 0.05, "gseed": 1, "trans": [4.0, 0.5, 0]},
]


def _arrays(i):
    if ("arr", i) not in _G:
        m = mg.build(_MESHES[i])
        _G[("arr", i)] = (m["vertices"], m["elements"])
    return _G[("arr", i)]


def _fresh_space(gi, kind):
    import bempp_cl.api

    v, e = _arrays(gi)
    g = bempp_cl.api.Grid(v.copy(), e.copy())
    return bempp_cl.api.function_space(g, *{"P1": ("P", 1), "DP0": ("DP", 0), "DP1": ("DP", 1)}[kind])


class _PerturbedGlobals(object):
    """While the oracle runs, the *global* quadrature orders are set to values different from the explicit ones it passes: an explicit
    parameter object that is silently dropped somewhere (and replaced by the global one) then shows up as a difference."""

    def __init__(self, eff_reg, eff_sing=None):
        self.reg = 5 if eff_reg != 5 else 3
        self.sing = 5 if eff_sing != 5 else 3

    def __enter__(self):
        import bempp_cl.api

        q = bempp_cl.api.GLOBAL_PARAMETERS.quadrature
        self.saved = (q.regular, q.singular)
        q.regular, q.singular = self.reg, self.sing

    def __exit__(self, *a):
        import bempp_cl.api

        q = bempp_cl.api.GLOBAL_PARAMETERS.quadrature
        q.regular, q.singular = self.saved


def _oracle_matrix(step, eff):
    """Stateless recomputation: fresh grids/spaces, explicit fresh parameters, dense assembly (under perturbed global orders)."""
    with _PerturbedGlobals(eff[0], eff[1]):
        return _oracle_matrix_impl(step, eff)


def _oracle_matrix_impl(step, eff):
    par = og.make_params(eff[0], eff[1])
    gi = step["grid"]
    if step["fam"] == "sparse":
        t = _fresh_space(gi, step["spaces"][0])
        import bempp_cl.api
        from bempp_cl.api.operators.boundary import sparse

        g = t.grid
        d = bempp_cl.api.function_space(g, *{"P1": ("P", 1), "DP0": ("DP", 0), "DP1": ("DP", 1)}[step["spaces"][1]])
        return sparse.identity(d, d, t, parameters=par).weak_form().to_sparse().toarray()
    import bempp_cl.api

    t = _fresh_space(gi, step["spaces"][0])
    kind = {"P1": ("P", 1), "DP0": ("DP", 0), "DP1": ("DP", 1)}[step["spaces"][1]]
    if step.get("grid2") is None:
        d = bempp_cl.api.function_space(t.grid, *kind)
    else:
        d = _fresh_space(step["grid2"], step["spaces"][1])
    k = og.wavenumber(step["k"]) if step.get("k") is not None else None
    return og.dense(og.boundary_operator(step["fam"], step["opn"], d, d, t, k, parameters=par, assembler="dense"))


class _World(object):
    def __init__(self):
        import bempp_cl.api

        self.api = bempp_cl.api
        self.grids = {}
        self.spaces = {}
        self.slots = {}
        self.par = bempp_cl.api.GLOBAL_PARAMETERS
        self.saved = (self.par.quadrature.regular, self.par.quadrature.singular, self.par.fmm.expansion_order, self.par.fmm.ncrit)
        self.events = []
        self.pots = []

    def restore(self):
        (self.par.quadrature.regular, self.par.quadrature.singular, self.par.fmm.expansion_order, self.par.fmm.ncrit) = self.saved
        self.api.clear_fmm_cache()

    def grid(self, key):
        if key not in self.grids:
            gi = int(str(key)[0])
            v, e = _arrays(gi)
            self.grids[key] = self.api.Grid(v.copy(), e.copy())
        return self.grids[key]

    def space(self, gkey, kind):
        if (gkey, kind) not in self.spaces:
            self.spaces[(gkey, kind)] = self.api.function_space(self.grid(gkey), *{"P1": ("P", 1), "DP0": ("DP", 0), "DP1": ("DP", 1)}[kind])
        return self.spaces[(gkey, kind)]


def check_history(desc):
    import bempp_cl.api

    steps = []
    for st_ in desc["steps"]:
        steps.append(st_)
        if st_.get("op") == "potential" and st_.get("then_quad"):
            # a global order change right after a potential operator was created and evaluated (it is evaluated again at the end)
            steps.append({"op": "set_quad", "reg": st_["then_quad"][0], "sing": st_["then_quad"][1]})
        if st_.get("op") == "create" and st_.get("then"):
            steps.append({"op": st_["then"], "slot": st_["slot"]})
        if st_.get("op") == "create" and st_.get("later"):
            # assemble only after the next step (e.g. a global parameter change or a mutation of the explicit object)
            steps.append({"op": "deferred", "slot": st_["slot"], "kind": st_["later"]})
    # deferred assemblies run one step later
    out_steps = []
    pending = []
    for st_ in steps:
        if st_["op"] == "deferred":
            pending.append({"op": st_["kind"], "slot": st_["slot"]})
            continue
        out_steps.append(st_)
        if pending and st_["op"] != "create":
            out_steps.extend(pending)
            pending = []
    out_steps.extend(pending)
    steps = out_steps
    W = _World()
    labels = ["history"]
    n_assemblies = 0
    changed_between = False
    last_assembly_grid = None
    dirty = False
    soft = []
    try:
        for si, st in enumerate(steps):
            kind = st["op"]
            if kind == "set_quad":
                W.par.quadrature.regular, W.par.quadrature.singular = st["reg"], st["sing"]
                dirty = True
                labels.append("global_quadrature_change")
            elif kind == "set_fmm":
                W.par.fmm.expansion_order, W.par.fmm.ncrit = st["order"], st["ncrit"]
                dirty = True
            elif kind == "clear_cache":
                bempp_cl.api.clear_fmm_cache()
                dirty = True
                labels.append("cache_clear")
            elif kind == "create":
                gkey = f"{st['grid']}{'c' if st.get('copy') else ''}"
                t = W.space(gkey, st["spaces"][0])
                d = W.space(gkey if st.get("grid2") is None else str(st["grid2"]), st["spaces"][1])
                pobj = None
                if st.get("params") is not None:
                    pobj = og.make_params(st["params"][0], st["params"][1])
                k = og.wavenumber(st["k"]) if st.get("k") is not None else None
                asm = st["assembler"]
                if st["fam"] == "sparse":
                    from bempp_cl.api.operators.boundary import sparse

                    op = sparse.identity(d, d, t, parameters=pobj)
                else:
                    rng_ = d if st.get("grid2") is None else t  # the range space lives on the test grid
                    op = og.boundary_operator(st["fam"], st["opn"], d, rng_, t, k, parameters=pobj, assembler=asm, precision=st.get("precision"))
                W.slots[st["slot"]] = {"op": op, "step": st, "pobj": pobj, "eff": None, "ref": None, "first": None}
            elif kind == "mutate_params":
                ent = W.slots.get(st["slot"])
                if ent is not None and ent["pobj"] is not None:
                    ent["pobj"].quadrature.regular, ent["pobj"].quadrature.singular = st["reg"], st["sing"]
                    labels.append("explicit_params_mutated")
            elif kind in ("weak", "strong", "apply"):
                ent = W.slots.get(st["slot"])
                if ent is None:
                    continue
                stp = ent["step"]
                op = ent["op"]
                src = ent["pobj"] if ent["pobj"] is not None else W.par
                if ent["eff"] is None:
                    ent["eff"] = (src.quadrature.regular, src.quadrature.singular)
                    ent["global_at_assembly"] = (W.par.quadrature.regular, W.par.quadrature.singular)
                fmm = stp["assembler"] == "fmm"
                cls = "fmm" if fmm else ("sparse" if stp["fam"] == "sparse" else "dense")
                expl = "explicit" if ent["pobj"] is not None else "global"
                try:
                    wf = op.weak_form()
                    n = wf.shape[1]
                    M = np.asarray(wf @ np.eye(n))
                except Exception as exc:  # noqa: BLE001
                    from vlib.pbt import crash_signature

                    mism = "order_mismatch" if (ent["eff"][0] != W.par.quadrature.regular) else "order_match"
                    sig_ = f"assembly_raises/{cls}/{expl}/{mism}"
                    msg_ = (f"step {si}: weak_form() of slot {st['slot']} ({stp['fam']} {stp.get('opn')}, assembler {stp['assembler']}, "
                            f"parameters {expl} {ent['eff']}, global {W.par.quadrature.regular, W.par.quadrature.singular}) raised "
                            f"{type(exc).__name__}: {str(exc)[:160]} [{crash_signature(exc)}]")
                    if (cls, expl, mism) == ("fmm", "explicit", "order_mismatch") and isinstance(exc, ValueError):
                        # recorded finding D12: report it, drop the slot and keep exploring the rest of the history
                        soft.append(("C18/" + sig_, msg_))
                        del W.slots[st["slot"]]
                        labels.append("continued_behind_D12")
                        continue
                    _fail(sig_, msg_)
                if op.weak_form() is not wf:
                    _fail(f"weak_form_identity/{cls}", f"step {si}: repeated weak_form() returned a different object")
                if ent["ref"] is None:
                    ent["ref"] = _oracle_matrix(stp, ent["eff"])
                    ent["first"] = M.copy()
                    n_assemblies += 1
                    if dirty and last_assembly_grid is not None:
                        changed_between = True
                    last_assembly_grid = stp["grid"]
                    dirty = False
                tol = 2e-4 if stp.get("precision") == "single" else (1e-9 if fmm else 1e-12)
                err = og.relerr(M, ent["ref"])
                if M.shape != ent["ref"].shape or err > tol:
                    mism = "order_mismatch" if (ent["eff"][0] != ent["global_at_assembly"][0]) else "order_match"
                    sig_ = f"history_dependence/{cls}/{expl}/{mism}"
                    msg_ = (f"step {si}: matrix of slot {st['slot']} ({stp['fam']} {stp.get('opn')}, assembler {stp['assembler']}, "
                            f"{expl} parameters, effective orders {ent['eff']}, global at assembly {ent['global_at_assembly']}) differs from the stateless "
                            f"recomputation by {err:.2e}")
                    if (cls, expl, mism) == ("fmm", "explicit", "order_mismatch"):
                        soft.append(("C18/" + sig_, msg_))  # D12 (the global order was used instead of the explicit one)
                        del W.slots[st["slot"]]
                        labels.append("continued_behind_D12")
                        continue
                    _fail(sig_, msg_)
                if np.max(np.abs(M - ent["first"])) != 0 and not fmm:
                    _fail(f"cached_result_changed/{cls}", f"step {si}: the assembled matrix of slot {st['slot']} changed after later steps")
                if kind == "strong" and stp["spaces"][0] == stp["spaces"][1] and stp.get("grid2") is None:
                    sf = op.strong_form()
                    S = np.asarray(sf @ np.eye(n))
                    t = _fresh_space(stp["grid"], stp["spaces"][0])
                    from bempp_cl.api.operators.boundary import sparse

                    Mm = sparse.identity(t, t, t, parameters=og.make_params(ent["eff"][0], 4)).weak_form().to_sparse().toarray()
                    want = np.linalg.solve(Mm, ent["ref"])
                    if og.relerr(S, want) > max(tol, 1e-9) * 100:
                        _fail(f"strong_form/{cls}", f"step {si}: strong form differs from M^-1 W of the stateless recomputation by {og.relerr(S, want):.2e}")
                if kind == "apply":
                    dom = op.domain
                    c = np.arange(1, dom.global_dof_count + 1, dtype=float)
                    r = (op * bempp_cl.api.GridFunction(dom, coefficients=c)).projections()
                    if og.relerr(r, ent["ref"] @ c) > max(tol, 1e-11) * 10:
                        _fail(f"apply/{cls}", f"step {si}: operator applied to a grid function deviates from the stateless matrix")
                labels.append(cls)
                labels.append(expl + "_parameters")
                if stp.get("precision") == "single":
                    labels.append("single_precision")
                if stp.get("copy"):
                    labels.append("identical_arrays_second_grid")
            elif kind == "mass":
                sp = W.space(str(st["grid"]), st["space"])
                mm = sp.mass_matrix()
                if sp.mass_matrix() is not mm:
                    _fail("mass_matrix_identity", f"step {si}: repeated mass_matrix() returned a different object")
                t = _fresh_space(st["grid"], st["space"])
                from bempp_cl.api.operators.boundary import sparse

                ref = sparse.identity(t, t, t, parameters=og.make_params(4, 4)).weak_form().to_sparse().toarray()
                if og.relerr(mm.to_sparse().toarray(), ref) > 1e-12:
                    _fail("history_dependence/mass_matrix", f"step {si}: mass matrix differs from the stateless one (global regular order {W.par.quadrature.regular})")
                labels.append("mass_matrix")
            elif kind == "potential":
                sp = W.space(str(st["grid"]), st["space"])
                pobj = og.make_params(st["params"][0], 4) if st.get("params") is not None else None
                X = np.asfortranarray(np.array([[6.0, 0.3, 0.2], [0.1, -5.0, 1.0], [2.0, 2.0, 4.0]]).T)
                k = og.wavenumber(st["k"]) if st.get("k") is not None else None
                c = np.arange(1, sp.global_dof_count + 1, dtype=float)
                eff = (pobj or W.par).quadrature.regular
                expl = "explicit" if pobj is not None else "global"
                asm = st["assembler"]
                try:
                    pot_op = og.potential_operator(st["fam"], st["opn"], sp, X, k, parameters=pobj, assembler=asm)
                    pot_gf = bempp_cl.api.GridFunction(sp, coefficients=c)
                    got = pot_op.evaluate(pot_gf)
                    W.pots.append((pot_op, pot_gf, np.array(got, copy=True), si, asm, expl))
                except Exception as exc:  # noqa: BLE001
                    from vlib.pbt import crash_signature

                    mism = "order_mismatch" if eff != W.par.quadrature.regular else "order_match"
                    sig_ = f"assembly_raises/potential_{asm}/{expl}/{mism}"
                    msg_ = f"step {si}: potential raised {type(exc).__name__}: {str(exc)[:160]} [{crash_signature(exc)}]"
                    if (asm, expl, mism) == ("fmm", "explicit", "order_mismatch") and isinstance(exc, ValueError):
                        soft.append(("C18/" + sig_, msg_))
                        labels.append("continued_behind_D12")
                        continue
                    _fail(sig_, msg_)
                t = _fresh_space(st["grid"], st["space"])
                with _PerturbedGlobals(eff):
                    want = og.potential_operator(st["fam"], st["opn"], t, X, k, parameters=og.make_params(eff, 4), assembler="dense").evaluate(
                        bempp_cl.api.GridFunction(t, coefficients=c))
                err = og.relerr(got, want)
                if err > (1e-9 if asm == "fmm" else 1e-12):
                    mism = "order_mismatch" if eff != W.par.quadrature.regular else "order_match"
                    sig_ = f"history_dependence/potential_{asm}/{expl}/{mism}"
                    msg_ = (f"step {si}: potential ({asm}, {expl} regular order {eff}, global {W.par.quadrature.regular}) "
                            f"differs from the stateless recomputation by {err:.2e}")
                    if (asm, expl, mism) == ("fmm", "explicit", "order_mismatch"):
                        soft.append(("C18/" + sig_, msg_))
                        labels.append("continued_behind_D12")
                        continue
                    _fail(sig_, msg_)
                labels.append("potential_" + asm)
        # final invariant: a potential operator evaluated again after all later steps (global parameter changes, cache clears, other
        # assemblies) returns what it returned the first time
        for pot_op, pot_gf, first, si0, asm, expl in W.pots:
            try:
                again = pot_op.evaluate(pot_gf)
            except Exception as exc:  # noqa: BLE001
                if asm == "fmm":
                    continue  # FMM potentials after cache clears / parameter changes are covered by the D12/D13 classes above
                raise
            tolp = 1e-9 if asm == "fmm" else 1e-13
            if og.relerr(again, first) > tolp:
                _fail(f"potential_reevaluation/{asm}/{expl}", f"potential operator created at step {si0} returns a different value when evaluated again at the end of "
                      f"the history (rel. diff {og.relerr(again, first):.2e}; global regular order now {W.par.quadrature.regular})")
            labels.append("potential_reevaluated")
        # final invariant: every assembled result still equals its first value
        for slot, ent in W.slots.items():
            if ent["first"] is not None and ent["step"]["assembler"] != "fmm":
                wf = ent["op"].weak_form()
                M = np.asarray(wf @ np.eye(wf.shape[1]))
                if np.max(np.abs(M - ent["first"])) != 0:
                    _fail("cached_result_changed/final", f"matrix of slot {slot} changed by the end of the history")
    finally:
        W.restore()
    return {"nontrivial": changed_between and n_assemblies >= 2, "labels": sorted(set(labels)), "measured": {"assemblies": n_assemblies, "steps": len(steps)},
            "soft_failures": soft}


CHECKS = {"history": check_history}


def shards(tier, seed=1):
    from vlib.pbt import rot

    q = tier == "quick"
    n = 1 if q else 8
    groups = [["laplace", "sparse"], ["helmholtz"], ["modified", "sparse"], ["laplace"]]
    allops = ["V", "K", "Kp", "W"]
    out = []
    # quick tier: two operator kinds per shard (every kind x space pair x precision is a separate ~7 s Numba specialisation)
    allpairs = [["DP0", "DP0"], ["P1", "P1"], ["P1", "DP0"], ["DP0", "P1"]]
    # quick tier: two operator kinds and two space pairs per shard -- every (kind, space pair, precision, assembler) is a separate
    # ~5-7 s Numba specialisation and a shard that meets them all spends its whole budget compiling; once compiled a history costs ~50 ms
    for i, g in enumerate(rot(groups, seed, 2) if q else groups):
        out.append({"check": "history", "fams": g, "fmm": False, "ops": rot(allops, seed + i, 2) if q else allops,
                    "pairs": rot(allpairs, seed + i, 2) if q else allpairs, "single": (not q) or i == 1, "examples": 150 * n, "budget_s": 300 * n})
    for i, g in enumerate(rot(groups, seed + 1, 2) if q else groups):
        out.append({"check": "history", "fams": g, "fmm": True, "ops": rot(allops, seed + i + 1, 2) if q else allops,
                    "pairs": rot(allpairs, seed + i + 1, 2) if q else allpairs, "single": not q, "examples": 120 * n, "budget_s": 300 * n})
    # the four Helmholtz constructors delegate purely imaginary wavenumbers to the modified Helmholtz ones (a dispatch branch each)
    out.append({"check": "history", "fams": ["helmholtz"], "fmm": False, "ops": allops, "pairs": [["P1", "P1"]], "single": False, "imag_k": True,
                "examples": 40 * n, "budget_s": 200 * n})
    return out


def strategy(spec):
    from hypothesis import strategies as st

    fams = spec["fams"]
    use_fmm = spec["fmm"]
    orders = st.sampled_from([2, 3, 4, 6])
    pairs = [list(p) for p in spec.get("pairs", [["DP0", "DP0"], ["P1", "P1"], ["P1", "DP0"], ["DP0", "P1"]])]
    kinds1 = sorted({p[1] for p in pairs})

    def create():
        @st.composite
        def s(draw):
            fam = draw(st.sampled_from(fams))
            d = {"op": "create", "slot": draw(st.integers(0, 3)), "fam": fam, "grid": draw(st.integers(0, 1)),
                 "params": draw(st.one_of(st.none(), st.tuples(orders, orders).map(list)))}
            when = draw(st.sampled_from(["then", "then", "later", "later", "none"]))
            if when != "none":
                d[when] = draw(st.sampled_from(["weak", "weak", "strong", "apply"]))
            if fam == "sparse":
                if "pairs" in spec:
                    d.update({"opn": "I", "spaces": list(draw(st.sampled_from(pairs))), "assembler": "sparse", "k": None})
                else:
                    d.update({"opn": "I", "spaces": [draw(st.sampled_from(["P1", "DP0", "DP1"])), draw(st.sampled_from(["P1", "DP0"]))], "assembler": "sparse", "k": None})
                return d
            d["opn"] = draw(st.sampled_from(spec.get("ops", ["V", "K", "Kp", "W"])))
            d["spaces"] = ["P1", "P1"] if d["opn"] == "W" else list(draw(st.sampled_from(pairs)))
            d["k"] = None if fam == "laplace" else ([1.2, 0] if fam == "modified" else draw(st.sampled_from([[0, 1.3]] if spec.get("imag_k") else [[1.0, 0], [1.5, 0.5], [0, 1.3]])))
            d["assembler"] = draw(st.sampled_from(["dense", "fmm", "fmm"])) if use_fmm else "dense"
            if d["assembler"] == "dense":
                d["precision"] = draw(st.sampled_from([None, None, "single"] if spec.get("single", True) else [None]))
                if draw(st.integers(0, 4)) == 0:
                    d["copy"] = True
                if draw(st.integers(0, 5)) == 0:
                    d["grid2"] = 1 - d["grid"]
                    d["copy"] = False
            return d
        return s()

    step = st.one_of(
        create(), create(),
        st.fixed_dictionaries({"op": st.just("set_quad"), "reg": orders, "sing": orders}),
        st.fixed_dictionaries({"op": st.sampled_from(["weak", "weak", "strong", "apply"]), "slot": st.integers(0, 3)}),
        st.fixed_dictionaries({"op": st.just("mutate_params"), "slot": st.integers(0, 3), "reg": orders, "sing": orders}),
        st.fixed_dictionaries({"op": st.just("clear_cache")}),
        st.fixed_dictionaries({"op": st.just("set_fmm"), "order": st.sampled_from([3, 5, 8]), "ncrit": st.sampled_from([50, 400])}),
        st.fixed_dictionaries({"op": st.just("mass"), "grid": st.integers(0, 1), "space": st.sampled_from(kinds1)}),
        st.fixed_dictionaries({"op": st.just("potential"), "fam": st.sampled_from([f for f in fams if f != "sparse"] or ["laplace"]),
                               "opn": st.sampled_from([o for o in spec.get("ops", ["V", "K"]) if o in ("V", "K")] or ["V"]), "grid": st.integers(0, 1), "space": st.sampled_from(kinds1),
                               "k": st.just(None), "assembler": st.sampled_from(["dense", "fmm"] if use_fmm else ["dense"]),
                               "params": st.one_of(st.none(), st.none(), st.tuples(orders).map(list)),
                               "then_quad": st.one_of(st.none(), st.tuples(orders, orders).map(list))}).map(_fix_pot),
    )
    return st.fixed_dictionaries({"steps": st.lists(step, min_size=4, max_size=14)})


def _fix_pot(d):
    d = dict(d)
    if d["fam"] == "helmholtz":
        d["k"] = [1.0, 0]
    elif d["fam"] == "modified":
        d["k"] = [1.2, 0]
    return d


def required_labels(tier):
    base = ["history", "dense", "fmm", "explicit_parameters", "global_parameters", "global_quadrature_change", "cache_clear", "potential_dense"]
    return base if tier == "quick" else base + ["sparse", "mass_matrix", "potential_fmm", "single_precision", "explicit_params_mutated", "identical_arrays_second_grid"]



"""C02 Laplace potential operators reproduce Green's representation formula."""

import numpy as np

from vlib.pbt import Violation
from vlib import meshgen as mg
from vlib import opgen as og

LEVEL = "exploration"
RULE = (
    "(closed outward-oriented star-shaped or two-component mesh with edits/displacement/motion/relabelling, refined by the harness until "
    "the library's maximum_element_diameter <= distance of the evaluation points to the surface; affine u; interior points near the "
    "component centroids and exterior points on an enclosing sphere, inside/outside verified by a solid-angle sum; spaces on the whole "
    "grid or split into segment-wise pieces): S[a.n](x) - D[u](x) - chi(x) u(x) on a ladder of regular orders 8, 12, 16(, 20): below 1e-6 "
    "at the top rung for `regular` meshes and decaying; exact sub-claims: potential of the sum of segment pieces == sum of the potentials, "
    "complex coefficients give P(re) + i P(im). Non-trivial = >= 1 interior and >= 1 exterior point and non-constant u; distinct by "
    "descriptor hash."
)
ORACLES = ["Green's representation formula for affine (harmonic) u with a convergence ladder", "linearity / segment additivity (exact)"]
ASSUMPTIONS = ["points are at least one (library-measured) element diameter away from the surface, as the property states"]


def _fail(sig, msg):
    raise Violation("C02/" + sig, msg)


def _solid_angle_inside(V, E, x):
    """Winding number of the closed surface around x (1 inside, 0 outside) by the solid-angle sum."""
    r = [V[:, E[i]].T - x[None, :] for i in range(3)]
    n = [np.linalg.norm(v, axis=1) for v in r]
    num = np.einsum("ij,ij->i", r[0], np.cross(r[1], r[2]))
    den = n[0] * n[1] * n[2] + np.einsum("ij,ij->i", r[0], r[1]) * n[2] + np.einsum("ij,ij->i", r[0], r[2]) * n[1] + np.einsum("ij,ij->i", r[1], r[2]) * n[0]
    return float(np.sum(2 * np.arctan2(num, den)) / (4 * np.pi))


def _dist_to_surface(V, E, x):
    """Exact distance from x to the union of triangles (brute force)."""
    best = np.inf
    for t in range(E.shape[1]):
        a, b, c = V[:, E[0, t]], V[:, E[1, t]], V[:, E[2, t]]
        # closest point on triangle (Ericson)
        ab, ac, ap = b - a, c - a, x - a
        d1, d2 = ab @ ap, ac @ ap
        if d1 <= 0 and d2 <= 0:
            q = a
        else:
            bp = x - b
            d3, d4 = ab @ bp, ac @ bp
            if d3 >= 0 and d4 <= d3:
                q = b
            else:
                vc = d1 * d4 - d3 * d2
                if vc <= 0 and d1 >= 0 and d3 <= 0:
                    q = a + ab * (d1 / (d1 - d3))
                else:
                    cp = x - c
                    d5, d6 = ab @ cp, ac @ cp
                    if d6 >= 0 and d5 <= d6:
                        q = c
                    else:
                        vb = d5 * d2 - d1 * d6
                        if vb <= 0 and d2 >= 0 and d6 <= 0:
                            q = a + ac * (d2 / (d2 - d6))
                        else:
                            va = d3 * d6 - d5 * d4
                            if va <= 0 and (d4 - d3) >= 0 and (d5 - d6) >= 0:
                                q = b + (c - b) * ((d4 - d3) / ((d4 - d3) + (d5 - d6)))
                            else:
                                den = 1.0 / (va + vb + vc)
                                q = a + ab * (vb * den) + ac * (vc * den)
        best = min(best, float(np.linalg.norm(x - q)))
    return best


def check_green(desc):
    import bempp_cl.api

    md = dict(desc["mesh"])
    # constructive refinement until the element diameter is below the point-surface distance
    for extra in range(6):
        m = mg.build(md)
        V, E = m["vertices"], m["elements"].astype(int)
        g = bempp_cl.api.Grid(m["vertices"], m["elements"], m["domains"].astype("uint32"))
        doms = m["domains"]
        comps = [np.arange(E.shape[1])]
        if md["base"] == "two":
            # components by connectivity
            lab = -np.ones(V.shape[1], dtype=int)
            cur = 0
            for s0 in range(V.shape[1]):
                if lab[s0] >= 0:
                    continue
                stack = [s0]
                lab[s0] = cur
                while stack:
                    v = stack.pop()
                    for t in np.flatnonzero((E == v).any(axis=0)):
                        for w in E[:, t]:
                            if lab[w] < 0:
                                lab[w] = cur
                                stack.append(w)
                cur += 1
            comps = [np.flatnonzero(lab[E[0]] == c) for c in range(cur)]
        pts_in = []
        for comp in comps:
            vs = np.unique(E[:, comp])
            pts_in.append(V[:, vs].mean(axis=1))
        cen = V.mean(axis=1)
        R = np.max(np.linalg.norm(V - cen[:, None], axis=0))
        dirs = np.array(desc.get("dirs", [[1, 0.2, 0.1], [-0.3, 1, 0.4], [0.2, -0.5, -1]]), dtype=float)
        dirs = dirs / np.linalg.norm(dirs, axis=1)[:, None]
        pts_out = [cen + d * R * f for d, f in zip(dirs, desc.get("radii", [2.2, 3.0, 6.0]))]
        dmin = min(_dist_to_surface(V, E, x) for x in pts_in + pts_out)
        if g.maximum_element_diameter <= dmin:
            break
        md = dict(md)
        md["edits"] = list(md.get("edits", [])) + [["refine"]]
        md["max_elems"] = 5000
    else:
        return {"nontrivial": False, "labels": ["skipped_unresolved"]}
    if mg.signed_volume(V, E) <= 0:
        from vlib.pbt import HarnessError

        raise HarnessError("mesh not outward oriented")
    chi = []
    for x in pts_in + pts_out:
        wn = _solid_angle_inside(V, E, x)
        if abs(wn - round(wn)) > 1e-6:
            return {"nontrivial": False, "labels": ["skipped_point_on_surface"]}
        chi.append(int(round(wn)))
    if any(c != 1 for c in chi[: len(pts_in)]) or any(c != 0 for c in chi[len(pts_in):]):
        return {"nontrivial": False, "labels": ["skipped_centroid_outside"]}
    X = np.asfortranarray(np.array(pts_in + pts_out).T)
    D = float(np.linalg.norm(g.bounding_box[:, 1] - g.bounding_box[:, 0]))
    a = np.array(desc["a"], dtype=float) / D
    b = float(desc["b"])
    const = not np.any(a)
    p1 = bempp_cl.api.function_space(g, "P", 1)
    dp0 = bempp_cl.api.function_space(g, "DP", 0)
    l2g = np.asarray(p1.local2global).astype(int)
    coef = np.zeros(p1.global_dof_count)
    coef[l2g.ravel()] = (a @ V + b)[E.T.ravel()]
    psi = np.asarray(g.normals) @ a
    uex = np.array(chi) * (a @ X + b)
    scale = np.abs(a @ X + b) + np.linalg.norm(a) * R + abs(b) * 0 + 1e-300
    errs = []
    ladder = desc["ladder"]
    for order in ladder:
        par = og.make_params(order, 4)
        S = og.potential_operator("laplace", "V", dp0, X, parameters=par).evaluate(bempp_cl.api.GridFunction(dp0, coefficients=psi))[0]
        Dp = og.potential_operator("laplace", "K", p1, X, parameters=par).evaluate(bempp_cl.api.GridFunction(p1, coefficients=coef))[0]
        errs.append(float(np.max(np.abs(S - Dp - uex) / (np.abs(a @ X + b) + np.linalg.norm(a) * R + abs(b)))))
    cls = desc["mesh"].get("cls", "hard")
    thr = 1e-6 if cls == "regular" else 1e-5
    if errs[-1] > thr:
        j = int(np.argmax(np.abs(S - Dp - uex)))
        where = "interior" if j < len(pts_in) else "exterior"
        _fail(f"representation/{cls}/{where}", f"S[a.n] - D[u] - chi u: relative errors {['%.1e' % e for e in errs]} on regular orders {ladder} (threshold {thr:g}); "
              f"worst at {where} point {j}, distance/diameter = {dmin / g.maximum_element_diameter:.2f}, {E.shape[1]} elements")
    if errs[0] > 1e-9 and errs[-1] > 0.5 * errs[0]:
        _fail(f"representation_nodecay/{cls}", f"error does not decay with the regular order: {['%.1e' % e for e in errs]}")
    labels = ["green", cls, desc["mesh"].get("base", "?")]
    # exact sub-claims at one order
    par = og.make_params(ladder[0], 4)
    present = sorted(set(int(x) for x in doms))
    if len(present) >= 2:
        tot = np.zeros(X.shape[1])
        totd = np.zeros(X.shape[1])
        for dmn in present:
            sp = bempp_cl.api.function_space(g, "DP", 0, segments=[dmn])
            cf = psi[np.asarray(sp.support)]
            tot = tot + og.potential_operator("laplace", "V", sp, X, parameters=par).evaluate(bempp_cl.api.GridFunction(sp, coefficients=cf))[0]
            spp = bempp_cl.api.function_space(g, "P", 1, segments=[dmn], include_boundary_dofs=True, truncate_at_segment_edge=True)
            l2 = np.asarray(spp.local2global).astype(int)
            cp = np.zeros(spp.global_dof_count)
            sup = np.flatnonzero(np.asarray(spp.support))
            cp[l2[sup].ravel()] = (a @ V + b)[E[:, sup].T.ravel()]
            totd = totd + og.potential_operator("laplace", "K", spp, X, parameters=par).evaluate(bempp_cl.api.GridFunction(spp, coefficients=cp))[0]
        S0 = og.potential_operator("laplace", "V", dp0, X, parameters=par).evaluate(bempp_cl.api.GridFunction(dp0, coefficients=psi))[0]
        D0 = og.potential_operator("laplace", "K", p1, X, parameters=par).evaluate(bempp_cl.api.GridFunction(p1, coefficients=coef))[0]
        if og.relerr(tot, S0) > 1e-11:
            _fail("segment_additivity/single_layer", f"sum of the potentials of the segment-wise DP0 pieces differs from the whole-grid potential by {og.relerr(tot, S0):.2e}")
        if og.relerr(totd, D0) > 1e-11:
            _fail("segment_additivity/double_layer", f"sum of the potentials of the truncated segment-wise P1 pieces differs from the whole-grid potential by {og.relerr(totd, D0):.2e}")
        labels.append("segment_pieces")
    cc = coef + 1j * (coef[::-1] * 0.5 + 1.0)
    Pc = og.potential_operator("laplace", "K", p1, X, parameters=par).evaluate(bempp_cl.api.GridFunction(p1, coefficients=cc))[0]
    Pr = og.potential_operator("laplace", "K", p1, X, parameters=par).evaluate(bempp_cl.api.GridFunction(p1, coefficients=np.real(cc)))[0]
    Pi = og.potential_operator("laplace", "K", p1, X, parameters=par).evaluate(bempp_cl.api.GridFunction(p1, coefficients=np.imag(cc)))[0]
    if og.relerr(Pc, Pr + 1j * Pi) > 1e-12:
        _fail("complex_linearity", "potential of complex coefficients differs from P(re) + i P(im)")
    return {"nontrivial": not const, "labels": labels, "measured": {"errors": errs, "elements": int(E.shape[1]), "dist_over_diam": dmin / g.maximum_element_diameter}}


CHECKS = {"green": check_green}


def shards(tier, seed=1):
    if tier == "quick":
        return [{"check": "green", "examples": 8, "budget_s": 240, "cls": "regular" if i % 2 else "hard", "rep": i} for i in range(4)]
    return [{"check": "green", "examples": 80, "budget_s": 2400, "cls": "regular" if i % 2 else "hard", "rep": i, "deep": True} for i in range(6)]


def strategy(spec):
    from hypothesis import strategies as st

    @st.composite
    def s(draw):
        mesh = draw(mg.mesh_descs("closed", max_elems=80, cls=spec["cls"], max_edits=2, allow_refine=False, domains=True,
                                  bases=["tetra", "octa", "cube", "prism", "icosa", "two"]))
        if mesh.get("domains", {}).get("mode") in ("all0",):
            mesh["domains"] = {"mode": "plane", "n": 2, "seed": 1, "values": [0, 3, 7, 12]}
        a = [draw(st.sampled_from([1.0, 0.0, -2.0, 0.5])) for _ in range(3)]
        if not any(a):
            a = [1.0, 0.0, 0.0]
        if draw(st.integers(0, 14)) == 0:
            a = [0.0, 0.0, 0.0]
        return {"mesh": mesh, "a": a, "b": draw(st.sampled_from([1.0, -3.0, 0.25])),
                "ladder": [8, 12, 16] if not spec.get("deep") else [8, 12, 16, 20]}
    return s()


def required_labels(tier):
    return ["green", "regular", "hard", "segment_pieces"]

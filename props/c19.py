"""C19 Grid and grid-function export and import round-trip."""

import os
import shutil
import tempfile

import numpy as np

from vlib.pbt import Violation
from vlib import meshgen as mg
from vlib import spacegen as sg

LEVEL = "exploration"
RULE = (
    "(mesh with non-contiguous domain indices incl. all-zero / single value, relabelled; format .msh binary/ASCII, .vtu, .ply): "
    "import_grid(export(grid)) has identical vertices, elements and (msh) domain indices. (space of every scalar/vector kind, real or "
    "complex coefficients, data_type node/element, transformation None/real/imag/abs/log_abs/abs_squared/callable, .msh/.vtu, binary or not): "
    "the data read back with meshio equal transformation(evaluate_on_vertices / evaluate_on_element_centers) (real and imaginary parts for "
    "complex data) and the mesh in the file is undisturbed. Non-trivial = >= 2 distinct domain indices or complex data or a transformation; "
    "distinct by descriptor hash."
)
ORACLES = ["round trip through the file", "independent read of the written file with meshio"]
ASSUMPTIONS = ["meshio 5.3.5 readers are correct; domain indices < 2^31 (documented int32 cast)"]


def _fail(sig, msg):
    raise Violation("C19/" + sig, msg)


def _tmpdir():
    base = os.environ.get("VERIF_SCRATCH") or tempfile.gettempdir()
    return tempfile.mkdtemp(prefix="c19_", dir=base)


def check_grid(desc):
    import bempp_cl.api
    import meshio

    g = mg.make_grid(desc["mesh"])
    fmt = desc["fmt"]
    binary = desc["binary"]
    d = _tmpdir()
    try:
        fn = os.path.join(d, "grid" + fmt)
        bempp_cl.api.export(fn, grid=g, write_binary=binary)
        V, E, D = np.asarray(g.vertices), np.asarray(g.elements), np.asarray(g.domain_indices)
        doms = sorted(set(int(x) for x in D))
        cls = "all_zero" if doms == [0] else ("single_value" if len(doms) == 1 else "multi")
        if fmt == ".msh":
            g2 = bempp_cl.api.import_grid(fn)
            V2, E2, D2 = np.asarray(g2.vertices), np.asarray(g2.elements), np.asarray(g2.domain_indices)
            tag = f"roundtrip_msh/{'binary' if binary else 'ascii'}"
            if V2.shape != V.shape or (binary and not np.array_equal(V2, V)) or np.max(np.abs(V2 - V)) > 1e-15 * np.max(np.abs(V)):
                _fail(f"{tag}/vertices", f"vertices changed by {np.max(np.abs(V2 - V)) if V2.shape == V.shape else 'shape'}")
            if not np.array_equal(E2, E):
                _fail(f"{tag}/elements", "connectivity changed")
            if not np.array_equal(D2.astype(np.int64), D.astype(np.int64)):
                _fail(f"roundtrip_msh/domain_indices/{cls}", f"domain indices {sorted(set(D.tolist()))} came back as {sorted(set(D2.tolist()))}")
        else:
            m = meshio.read(fn)
            P = np.asarray(m.points, dtype=float).T
            C = np.asarray(m.cells_dict["triangle"]).T
            # binary VTU is lossless; ASCII VTU is written with ~11 significant digits by meshio ("only meant for debugging")
            tol = (0 if binary else 1e-9) if fmt == ".vtu" else 1e-15
            if P.shape != V.shape or np.max(np.abs(P - V)) > tol * np.max(np.abs(V)):
                _fail(f"roundtrip{fmt}/vertices", f"vertices changed by {np.max(np.abs(P - V)) if P.shape == V.shape else 'shape'}")
            if not np.array_equal(C.astype(np.int64), E.astype(np.int64)):
                _fail(f"roundtrip{fmt}/elements", "connectivity changed")
            g2 = bempp_cl.api.import_grid(fn)
            if not np.array_equal(np.asarray(g2.elements), E):
                _fail(f"roundtrip{fmt}/import_elements", "import_grid of the exported file changed the connectivity")
    finally:
        shutil.rmtree(d, ignore_errors=True)
    labels = ["grid", fmt, "binary" if binary else "ascii", cls]
    return {"nontrivial": len(doms) >= 2, "labels": labels}


def _transform_ref(a, mode):
    if mode is None:
        return a
    if mode == "real":
        return np.real(a)
    if mode == "imag":
        return np.imag(a)
    if mode == "abs":
        return np.sqrt(np.sum(np.abs(a) ** 2, axis=0, keepdims=True))
    if mode == "abs_squared":
        return np.sum(np.abs(a) ** 2, axis=0, keepdims=True)
    if mode == "log_abs":
        return np.log(np.sqrt(np.sum(np.abs(a) ** 2, axis=0, keepdims=True)))
    if mode == "callable":
        return 2.0 * np.real(a) + 1.0
    raise ValueError(mode)


def check_function(desc):
    import bempp_cl.api
    import meshio

    g = mg.make_grid(desc["mesh"])
    sd = desc["space"]
    kw = sg.space_kwargs(g, sd)
    if sd["kind"] in sg.EDGE_KINDS and not sg.support_is_manifold(g, kw):
        return {"nontrivial": False, "labels": ["skipped"]}
    if len(sg.model_dof_entities(g, sd["kind"], kw)) == 0:
        return {"nontrivial": False, "labels": ["skipped"]}
    space, _ = sg.build_space(g, sd)
    rng = np.random.default_rng(desc["seed"])
    c = rng.standard_normal(space.global_dof_count) + (1j * rng.standard_normal(space.global_dof_count) if desc["complex"] else 0)
    c = c + 0.3  # keep abs away from 0 for log_abs
    gf = bempp_cl.api.GridFunction(space, coefficients=c)
    mode = desc["transformation"]
    dt = desc["data_type"]
    fmt = desc["fmt"]
    tr = (lambda a: 2.0 * np.real(a) + 1.0) if mode == "callable" else mode
    raw = gf.evaluate_on_vertices() if dt == "node" else gf.evaluate_on_element_centers()
    want = _transform_ref(raw, mode).T  # (n, comps)
    if mode == "log_abs" and not np.all(np.isfinite(want)):
        return {"nontrivial": False, "labels": ["skipped_log_of_zero"]}
    d = _tmpdir()
    if fmt == ".msh" and not desc["binary"]:
        # meshio 5.3.5 cannot read back the ASCII NodeData/ElementData blocks it writes under numpy 2 (np.fromfile raises);
        # ASCII gmsh data export is therefore only checked for not raising
        desc = dict(desc)
        ascii_msh = True
    else:
        ascii_msh = False
    cplx_out = np.iscomplexobj(want)
    cls = f"{dt}/{'complex' if cplx_out else 'real'}"
    try:
        fn = os.path.join(d, "fun" + fmt)
        try:
            bempp_cl.api.export(fn, grid_function=gf, data_type=dt, transformation=tr, write_binary=desc["binary"])
        except Exception as exc:  # noqa: BLE001
            _fail(f"export_raises/{cls}/{fmt}", f"export(grid_function, data_type={dt}, transformation={mode}) raised {type(exc).__name__}: {str(exc)[:200]}")
        if ascii_msh:
            return {"nontrivial": False, "labels": ["function", "ascii_msh_write_only"]}
        m = meshio.read(fn)
        src = m.point_data if dt == "node" else {k: v[0] for k, v in m.cell_data.items()}
        parts = {"real": np.real(want), "imag": np.imag(want)} if cplx_out else {"data": want}
        for key, w in parts.items():
            if key not in src:
                _fail(f"data_missing/{cls}/{fmt}", f"'{key}' not found in the written file (keys {sorted(src)})")
            got = np.asarray(src[key], dtype=float)
            got = got.reshape(w.shape) if got.size == w.size else got
            dtol = 1e-9 if (fmt == ".vtu" and not desc["binary"]) else 1e-12  # ASCII VTU: ~11 significant digits
            if got.shape != w.shape or np.max(np.abs(got - w)) > dtol * max(1.0, float(np.max(np.abs(w)))):
                _fail(f"data_values/{cls}/{mode}", f"'{key}' read back from {fmt} deviates from the transformed {dt} values by "
                      f"{np.max(np.abs(got - w)) if got.shape == w.shape else 'shape %s vs %s' % (got.shape, w.shape)}")
        g2 = bempp_cl.api.import_grid(fn)
        if not np.array_equal(np.asarray(g2.elements), np.asarray(g.elements)) or np.max(np.abs(np.asarray(g2.vertices) - np.asarray(g.vertices))) > (1e-9 if (fmt == ".vtu" and not desc["binary"]) else 1e-15) * np.max(np.abs(g.vertices)):
            _fail(f"mesh_disturbed/{fmt}", "exporting data changed the mesh stored in the file")
    finally:
        shutil.rmtree(d, ignore_errors=True)
    labels = ["function", dt, fmt, sd["kind"], "complex_data" if cplx_out else "real_data", f"transformation_{mode}"]
    return {"nontrivial": cplx_out or mode is not None, "labels": labels}


CHECKS = {"grid": check_grid, "function": check_function}


def shards(tier, seed=1):
    n = 1 if tier == "quick" else 10
    out = [{"check": "grid", "fmt": f, "examples": 80 * n, "budget_s": 120 * n} for f in (".msh", ".vtu", ".ply")]
    out += [{"check": "function", "group": g, "examples": 80 * n, "budget_s": 150 * n} for g in ("scalar", "vector")]
    return out


def strategy(spec):
    from hypothesis import strategies as st

    if spec["check"] == "grid":
        @st.composite
        def s(draw):
            mesh = draw(mg.mesh_descs("any", max_elems=60, domains=True))
            k = draw(st.integers(0, 5))
            if k == 0:
                mesh["domains"] = {"mode": "all0"}
            elif k == 1:
                mesh["domains"] = {"mode": "patch", "n": 1, "seed": 0, "values": [draw(st.sampled_from([1, 5, 2000000000]))]}
            return {"mesh": mesh, "fmt": spec["fmt"], "binary": draw(st.booleans())}
        return s()
    vec = spec["group"] == "vector"

    @st.composite
    def s(draw):
        if vec:
            closed = draw(st.booleans())
            mesh = draw(mg.mesh_descs("closed" if closed else "open", max_elems=30, domains=True, max_edits=2, allow_refine=False,
                                      bases=None if closed else ["sheet", "strip", "fan"]))
            if mesh.get("domains", {}).get("mode") == "scatter":
                mesh["domains"]["mode"] = "patch"
            kinds = ["RWG", "SNC"]
            modes = [None, None, None, "abs", "log_abs", "abs_squared", "real", "imag", "callable"]
        else:
            mesh = draw(mg.mesh_descs("any", max_elems=40, domains=True, max_edits=2, allow_refine=False))
            kinds = ["DP0", "DP1", "P1"]
            modes = [None, None, None, "real", "imag", "abs", "log_abs", "abs_squared", "callable"]
        return {"mesh": mesh, "space": draw(sg.space_descs(kinds)), "seed": draw(st.integers(0, 999)), "complex": draw(st.booleans()),
                "data_type": draw(st.sampled_from(["node", "element"])), "transformation": draw(st.sampled_from(modes)),
                "fmt": draw(st.sampled_from([".msh", ".vtu"])), "binary": draw(st.sampled_from([True, True, True, False]))}
    return s()


def required_labels(tier):
    return ["grid", ".msh", ".vtu", ".ply", "binary", "ascii", "multi", "all_zero", "single_value", "function", "node", "element",
            "complex_data", "real_data", "RWG", "P1", "DP0"]

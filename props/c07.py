"""C07 Boundary operators between disjoint grids equal Galerkin-tested potentials."""

import numpy as np

from vlib.pbt import Violation
from vlib import meshgen as mg
from vlib import spacegen as sg
from vlib import opgen as og
from vlib import refnum

LEVEL = "exploration"
RULE = (
    "(two independently generated meshes placed >= 0.5 diameters apart, operator family/op, wavenumber, test and trial space "
    "descriptors, quadrature order): boundary matrix between the grids vs. potential operator of each trial basis function evaluated "
    "at test_grid.map_to_point_cloud(order) and integrated against the reference test basis with the library's rule weights "
    "(Maxwell: field x n against SNC). Exact tolerance for V, K, M; Maxwell E under a regular-order ladder. Non-trivial = both grids "
    ">= 2 elements and different; distinct by descriptor hash."
)
ORACLES = ["Galerkin testing of the library's potential operators with the harness's reference test basis (differential between two code paths)"]
ASSUMPTIONS = ["potential operators are judged independently by C08 (closed-form kernel sums)"]

TOL = 5e-11


def _fail(sig, msg):
    raise Violation("C07/" + sig, msg)


def _place(desc):
    """Build the two grids; translate the second so that bounding spheres are >= sep * max diameter apart."""
    import bempp_cl.api

    m1 = mg.build(desc["mesh_test"])
    m2 = mg.build(desc["mesh_trial"])
    c1 = m1["vertices"].mean(axis=1)
    c2 = m2["vertices"].mean(axis=1)
    r1 = np.max(np.linalg.norm(m1["vertices"] - c1[:, None], axis=0))
    r2 = np.max(np.linalg.norm(m2["vertices"] - c2[:, None], axis=0))
    d = np.array(desc.get("dir", [1.0, 0.3, -0.2]), dtype=float)
    if np.linalg.norm(d) == 0:
        d = np.array([1.0, 0, 0])
    d /= np.linalg.norm(d)
    gap = float(desc.get("sep", 0.5)) * 2 * max(r1, r2)
    shift = c1 + d * (r1 + r2 + gap) - c2
    v2 = m2["vertices"] + shift[:, None]
    g1 = bempp_cl.api.Grid(m1["vertices"], m1["elements"], m1["domains"].astype("uint32"))
    g2 = bempp_cl.api.Grid(v2, m2["elements"], m2["domains"].astype("uint32"))
    return g1, g2


def potential_columns(fam, op, space, points, k, par):
    """(kdim, npoints, ndof) array of the potential of every basis function."""
    import bempp_cl.api

    P = og.potential_operator(fam, op, space, points, k, parameters=par)
    n = space.global_dof_count
    out = None
    for j in range(n):
        c = np.zeros(n)
        c[j] = 1.0
        v = P.evaluate(bempp_cl.api.GridFunction(space, coefficients=c))
        if out is None:
            out = np.zeros(v.shape + (n,), dtype=complex if np.iscomplexobj(v) else float)
        out[:, :, j] = v
    return out


def tested(space_t, order, field, vector):
    """Integrate field (kdim, npts, ndof) against the reference test basis on the library's point cloud ordering."""
    from bempp_cl.api.integration.triangle_gauss import rule

    lp, w = rule(order)
    g = space_t.grid
    E = np.asarray(g.elements).astype(int)
    V = np.asarray(g.vertices)
    q = lp.shape[1]
    nt = space_t.global_dof_count
    A = np.zeros((nt, field.shape[2]), dtype=field.dtype)
    l2g = np.asarray(space_t.local2global).astype(int)
    Tr = space_t.dof_transformation.tocsr() if space_t.requires_dof_transformation else None
    nm = np.asarray(space_t.normal_multipliers).astype(float)
    for e in np.flatnonzero(np.asarray(space_t.support)):
        ie = np.linalg.norm(np.cross(V[:, E[1, e]] - V[:, E[0, e]], V[:, E[2, e]] - V[:, E[0, e]]))
        basis = sg.ref_basis(space_t, int(e), lp)  # (cod, nshape, q)
        F = field[:, q * e: q * (e + 1), :]  # (kdim, q, ndof)
        if vector:
            n = np.cross(V[:, E[1, e]] - V[:, E[0, e]], V[:, E[2, e]] - V[:, E[0, e]])
            n = n / np.linalg.norm(n) * nm[e]
            F = np.cross(F, n[:, None, None], axis=0)  # field x n
        for i in range(basis.shape[1]):
            val = ie * np.einsum("q,cq,cqj->j", w, basis[:, i, :], F)
            A[l2g[e, i]] += val
    return A


def check_pair(desc):
    import bempp_cl.api

    gt, gd = _place(desc)
    fam, op = desc["fam"], desc["op"]
    k = og.wavenumber(desc["k"]) if desc.get("k") is not None else None
    for g, sd in ((gt, desc["test"]), (gd, desc["trial"])):
        kw = sg.space_kwargs(g, sd)
        if sd["kind"] in sg.EDGE_KINDS and not sg.support_is_manifold(g, kw):
            return {"nontrivial": False, "labels": ["skipped"]}
        if len(sg.model_dof_entities(g, sd["kind"], kw)) == 0:
            return {"nontrivial": False, "labels": ["skipped"]}
    vector = fam == "maxwell"
    if vector and op == "E" and k is not None:
        # the E relation is judged on a ladder of regular orders (not exactly): the wave must be resolvable by those orders, so the
        # wavenumber is drawn as k D (D the larger grid diameter) - a 28-wavelength tetrahedron does not converge at orders <= 10
        Dm = max(float(np.linalg.norm(gg.bounding_box[:, 1] - gg.bounding_box[:, 0])) for gg in (gt, gd))
        k = k / Dm
    if vector and op == "E":
        # The electric-field *matrix* is the integrated-by-parts form (surface curl of the test function); it equals the tested potential
        # only for test functions without tangential trace on the boundary of their support (no boundary half-functions on an open
        # support) - the same line-term exemption as for curl H / div E in C08. Not claimed otherwise.
        kwt = sg.space_kwargs(gt, desc["test"])
        ibd_t, _tr = sg.effective_options(desc["test"]["kind"], kwt)
        req = sg.requested_support(gt, kwt)
        topo = mg.topology(np.asarray(gt.elements).astype(int))
        open_support = any(sum(1 for e in elems if req[e]) == 1 for elems in topo["edges"].values())
        if ibd_t and open_support:
            return {"nontrivial": False, "labels": ["skipped_E_test_boundary_halffunctions"]}
    st, _ = sg.build_space(gt, desc["test"])
    sd_, _ = sg.build_space(gd, desc["trial"])
    orders = [desc["order"]] if not (vector and op == "E") else desc.get("ladder", [3, 6, 10])
    errs = []
    for order in orders:
        par = og.make_params(order, 4)
        A = og.dense(og.boundary_operator(fam, op, sd_, sd_, st, k, parameters=par))
        pts = gt.map_to_point_cloud(order=order).T
        field = potential_columns(fam, op, sd_, np.asfortranarray(pts), k, par)
        R = tested(st, order, field, vector)
        if A.shape != R.shape:
            _fail(f"shape/{fam}_{op}", f"{A.shape} vs {R.shape}")
        errs.append(og.relerr(A, R, og.entry_floor(gt, fam, op)))
    sig = f"tested_potential/{fam}_{op}/{desc['test']['kind']}x{desc['trial']['kind']}"
    if vector and op == "E":
        if errs[-1] > 1e-6 and errs[-1] > 0.05 * errs[0]:
            _fail(sig, f"E vs tested electric potential: {['%.1e' % e for e in errs]} on regular orders {orders}: no convergence")
    elif errs[0] > TOL:
        _fail(sig, f"boundary matrix between disjoint grids differs from the Galerkin-tested potential by {errs[0]:.2e} (k={k}, order={orders[0]})")
    labels = ["pair", f"{fam}_{op}"]
    if desc["test"].get("sel") or desc["trial"].get("sel"):
        labels.append("segment")
    if k is not None and np.imag(k) != 0:
        labels.append("complex_k")
    nontrivial = gt.number_of_elements >= 2 and gd.number_of_elements >= 2
    return {"nontrivial": nontrivial, "labels": labels, "measured": {"errors": errs}}


CHECKS = {"pair": check_pair}

_COMBOS = [("laplace", "V"), ("laplace", "K"), ("helmholtz", "V"), ("helmholtz", "K"), ("modified", "V"), ("modified", "K"),
           ("maxwell", "M"), ("maxwell", "E")]


def shards(tier, seed=1):
    from vlib.pbt import rot

    q = tier == "quick"
    n = 1 if q else 8
    allc = []
    for fam, op in _COMBOS:
        for shapes in ((["DP0"], ["P1", "DP1"]), (["P1", "DP1"], ["DP0"])) if fam != "maxwell" else ((["SNC"], ["RWG"]),):
            allc.append((fam, op, shapes))
    # quick: two rotating scalar kernel/shape-set combinations (one assembler, default_scalar) and both Maxwell assemblers
    sel = (rot([c for c in allc if c[0] != "maxwell"], seed, 2) + [c for c in allc if c[0] == "maxwell"]) if q else allc
    out = [{"check": "pair", "fam": fam, "op": op, "tk": shapes[0], "dk": shapes[1], "examples": (10 if fam != "maxwell" else 6) * n, "budget_s": 280 * n}
           for fam, op, shapes in sel]
    if not q:
        for fam, op in _COMBOS[:6]:
            out.append({"check": "pair", "fam": fam, "op": op, "tk": ["DP0"], "dk": ["DP0"], "examples": 40, "budget_s": 1500})
            out.append({"check": "pair", "fam": fam, "op": op, "tk": ["P1", "DP1"], "dk": ["P1", "DP1"], "examples": 40, "budget_s": 1500})
    return out


def strategy(spec):
    from hypothesis import strategies as st

    fam = spec["fam"]
    edge = fam == "maxwell"

    @st.composite
    def s(draw):
        def mesh():
            if edge:
                closed = draw(st.booleans())
                m = draw(mg.mesh_descs("closed" if closed else "open", max_elems=20, domains=True, max_edits=2, allow_refine=False,
                                       bases=None if closed else ["sheet", "strip", "fan"]))
                if m.get("domains", {}).get("mode") == "scatter":
                    m["domains"]["mode"] = "patch"
                return m
            return draw(mg.mesh_descs("any", max_elems=20, domains=True, max_edits=2, allow_refine=False))
        if fam == "laplace":
            k = None
        elif fam == "modified":
            k = draw(st.sampled_from([[0.5, 0], [2.0, 0]]))
        else:
            k = draw(st.sampled_from([[1.0, 0], [2.5, 1.0], [0.3, -0.2], [3.0, 0], [-1.5, 0.5]]))
        return {"mesh_test": mesh(), "mesh_trial": mesh(), "fam": fam, "op": spec["op"], "k": k,
                "test": draw(sg.space_descs(spec["tk"])), "trial": draw(sg.space_descs(spec["dk"])),
                "order": draw(st.integers(1, 8)), "sep": draw(st.sampled_from([0.5, 1.0, 3.0])),
                "dir": [draw(st.integers(-2, 2)) for _ in range(3)]}
    return s()


def required_labels(tier):
    return ["pair"] if tier == "quick" else ["pair", "laplace_V", "laplace_K", "helmholtz_V", "helmholtz_K", "modified_V", "modified_K", "maxwell_M", "maxwell_E", "segment"]



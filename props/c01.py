"""C01 Laplace boundary operators satisfy the Calderon identities on any polyhedron."""

import numpy as np

from vlib.pbt import Violation
from vlib import meshgen as mg
from vlib import opgen as og

LEVEL = "exploration"
RULE = (
    "(closed outward-oriented mesh: convex, non-convex L-prism, genus-1 torus, two components; topological edits, displacement, "
    "anisotropic scaling, rigid motion, global scale 1e-3..1e2, relabelling; affine u = a.x + b with drawn a, b): residuals of "
    "(1/2 M + K) g = V psi and W g = (1/2 M' - K') psi with g = u(vertices) in P1 and psi = a.n in DP0 on a ladder of (regular, singular) "
    "orders; the top rung must be below the class threshold (1e-6 for `regular` meshes) and the residual must decay; W 1 = 0 to rounding at "
    "every order. Outward orientation is established by the harness (signed volume > 0 per component). Non-trivial = non-constant u and "
    "an edited or displaced mesh; distinct by descriptor hash."
)
ORACLES = ["Calderon identities for harmonic (affine) functions with a convergence ladder", "W 1 = 0 exactly"]
ASSUMPTIONS = ["thresholds calibrated on generated meshes of the unchanged tree with >= 10x margin for the `hard` class; 1e-6 as stated for `regular`"]


def _fail(sig, msg):
    raise Violation("C01/" + sig, msg)


def residuals(g, a, b, reg, sing):
    import bempp_cl.api

    par = og.make_params(reg, sing)
    p1 = bempp_cl.api.function_space(g, "P", 1)
    dp0 = bempp_cl.api.function_space(g, "DP", 0)
    V = np.asarray(g.vertices)
    gvec = a @ V + b
    # P1 dofs are attached to vertices: read the map from the definition data
    l2g = np.asarray(p1.local2global).astype(int)
    E = np.asarray(g.elements).astype(int)
    coef = np.zeros(p1.global_dof_count)
    coef[l2g.ravel()] = gvec[E.T.ravel()]
    psi = np.asarray(g.normals) @ a
    Vm = og.dense(og.boundary_operator("laplace", "V", dp0, dp0, dp0, parameters=par))
    Km = og.dense(og.boundary_operator("laplace", "K", p1, dp0, dp0, parameters=par))
    M = og.boundary_operator("sparse", "I", p1, dp0, dp0, parameters=par).weak_form().to_sparse().toarray()
    lhs = 0.5 * M @ coef + Km @ coef
    rhs = Vm @ psi
    r1 = np.linalg.norm(lhs - rhs) / max(np.linalg.norm(rhs), np.linalg.norm(0.5 * M @ coef), 1e-300)
    Wm = og.dense(og.boundary_operator("laplace", "W", p1, p1, p1, parameters=par))
    Kp = og.dense(og.boundary_operator("laplace", "Kp", dp0, p1, p1, parameters=par))
    Mt = og.boundary_operator("sparse", "I", dp0, p1, p1, parameters=par).weak_form().to_sparse().toarray()
    lhs2 = Wm @ coef
    rhs2 = 0.5 * Mt @ psi - Kp @ psi
    den2 = max(np.linalg.norm(0.5 * Mt @ psi), 1e-300)
    r2 = np.linalg.norm(lhs2 - rhs2) / den2
    w1 = np.max(np.abs(Wm @ np.ones(Wm.shape[1]))) / max(np.max(np.abs(Wm)), 1e-300)
    return float(r1), float(r2), float(w1)


def check_calderon(desc):
    m = mg.build(desc["mesh"])
    vol = mg.signed_volume(m["vertices"], m["elements"])
    if vol <= 0:
        from vlib.pbt import HarnessError

        raise HarnessError("generated closed mesh is not outward oriented")
    import bempp_cl.api

    g = bempp_cl.api.Grid(m["vertices"], m["elements"], m["domains"].astype("uint32"))
    D = float(np.linalg.norm(g.bounding_box[:, 1] - g.bounding_box[:, 0]))
    a = np.array(desc["a"], dtype=float) / D  # gradient scaled so that the variation over the mesh is O(|a|)
    b = float(desc["b"])
    const = float(np.linalg.norm(a)) == 0
    ladder = desc["ladder"]
    out = []
    for reg, sing in ladder:
        r1, r2, w1 = residuals(g, a, b, reg, sing)
        out.append((r1, r2))
        if w1 > 1e-11:
            _fail("W_annihilates_constants", f"|W 1| / |W| = {w1:.2e} at orders {(reg, sing)}")
    cls = desc["mesh"].get("cls", "hard")
    r1s = [o[0] for o in out]
    r2s = [o[1] for o in out]
    tag = f"{desc['mesh'].get('base')}"
    # Calibrated on generated meshes of the unchanged tree (see DESIGN.md C01): `regular` = icosahedron/octahedron family with mild
    # edits, where the stated 1e-6 is reached at (20,14) with three orders of margin; `hard` = everything else (sharp dihedral angles,
    # thin tori, face splits), judged by decay and a loose absolute bound.
    # `hard` (thin triangles from face splits and jitter, coarse distorted tori, refined L-prisms: the near-singular *regular* pairs need
    # orders beyond the ladder): measured on the unchanged tree up to 2.8e-2 / 8.8e-3 / 3.9e-3 on the three rungs and plateaus such as
    # 1.6e-4 / 1.5e-4 / 3.7e-5, so only a gross bound (0.1) is demanded on every rung and, with three rungs, that the top rung is
    # either small (<= 1e-4) or has decayed to half of the first. The stated 1e-6 is demanded in the `regular` class.
    rules = {"regular": {"abs": [None, 1e-4, 1e-6], "decay": [None, 0.15, 0.01]}, "hard": {"abs": [None, 0.1, 0.1], "decay": [None, None, 0.5]}}[cls]
    for nm, rs, skip in (("first_identity", r1s, False), ("second_identity", r2s, const)):
        if skip:
            continue
        for i in range(1, len(rs)):
            if rs[i] > rules["abs"][i]:
                _fail(f"{nm}/{cls}/abs", f"{nm}: relative residuals {['%.1e' % r for r in rs]} on ladder {ladder}; rung {i} above {rules['abs'][i]:g}; base {tag}")
            dec = rules["decay"][i]
            if dec is not None and rs[0] > 1e-8 and rs[i] > dec * rs[0] and (cls == "regular" or rs[i] > 1e-4):
                _fail(f"{nm}/{cls}/decay", f"{nm}: relative residuals {['%.1e' % r for r in rs]} on ladder {ladder} do not decay by the factor {dec:g}; base {tag}")
    labels = ["calderon", cls, desc["mesh"].get("base", "?")]
    if const:
        labels.append("constant_u")
    if desc["mesh"].get("relabel") is not None:
        labels.append("relabelled")
    nontrivial = (not const) and (bool(desc["mesh"].get("edits")) or m["used_amp"] > 0)
    return {"nontrivial": nontrivial, "labels": labels, "measured": {"r1": r1s, "r2": r2s}}


CHECKS = {"calderon": check_calderon}


def shards(tier, seed=1):
    if tier == "quick":
        return [{"check": "calderon", "examples": 6, "budget_s": 420, "cls": c, "rep": i, "max_elems": 40} for i, c in enumerate(["regular", "hard", "regular", "hard"])]
    return [{"check": "calderon", "examples": 60, "budget_s": 3000, "cls": "regular" if i % 2 else "hard", "rep": i, "max_elems": 140, "deep": True} for i in range(6)]


def strategy(spec):
    from hypothesis import strategies as st

    @st.composite
    def s(draw):
        if spec["cls"] == "regular":
            # well-resolved class in which the property's 1e-6 is reachable at (12,10): obtuse dihedral angles, mild edits
            mesh = draw(mg.mesh_descs("closed", max_elems=spec.get("max_elems", 60), cls="regular", max_edits=3, allow_refine=True,
                                      bases=["icosa", "octa"]))
            mesh["amp"] = min(mesh.get("amp", 0.0), 0.12)
            mesh.pop("aniso", None)
        else:
            mesh = draw(mg.mesh_descs("closed", max_elems=spec.get("max_elems", 60), cls="hard", max_edits=3, allow_refine=True))
        a = [draw(st.sampled_from([1.0, 0.0, -2.0, 0.5])) for _ in range(3)]
        if not any(a):
            a = [0.0, 0.0, 1.0]
        if draw(st.integers(0, 14)) == 0:
            a = [0.0, 0.0, 0.0]
        ladder = [[6, 6], [12, 10]] if not spec.get("deep") else [[6, 6], [12, 10], [20, 14]]
        return {"mesh": mesh, "a": a, "b": draw(st.sampled_from([1.0, -3.0, 0.25])), "ladder": ladder}
    return s()


def required_labels(tier):
    return ["calderon", "regular", "hard"]

"""C13 Sparse operators, projections and integrals are exact L2 quantities."""

import numpy as np

from vlib.pbt import Violation
from vlib import meshgen as mg
from vlib import spacegen as sg
from vlib import opgen as og
from vlib import refnum

LEVEL = "exploration"
RULE = (
    "(non-uniform mesh, space pair incl. segments/support_elements and signed edge bases, quadrature order 1..20 restricted to orders "
    "that are exact for the product degree, coefficient seed real/complex): identity and Laplace-Beltrami matrices vs. reference quadrature "
    "of products of reference bases/gradients; SPD / PSD / constants-in-kernel / entries-sum-to-area; GridFunction integrate, l2_norm, "
    "projections(dual), evaluate_on_vertices (documented area-weighted average), evaluate_on_element_centers vs. direct quadrature; "
    "projection of members of the space given as jit/non-jit/vectorised/parameterised real and complex callables returns the exact "
    "coefficients; MultiplicationOperator (component and inner) vs. reference quadrature. Non-trivial = edited/displaced mesh and "
    "(segment space or signed basis or complex data); distinct by descriptor hash."
)
ORACLES = ["reference quadrature (collapsed Gauss-Legendre) of reference bases", "closed-form members of the spaces"]
ASSUMPTIONS = ["mass matrices are inverted by the library's own sparse LU when coefficients are requested; conditioning bounded by the mesh class"]

TOL = 1e-11


def _fail(sig, msg):
    raise Violation("C13/" + sig, msg)


def _ok_space(g, sd):
    kw = sg.space_kwargs(g, sd)
    if sd["kind"] in sg.EDGE_KINDS and not sg.support_is_manifold(g, kw):
        return False
    return len(sg.model_dof_entities(g, sd["kind"], kw)) > 0


def _ref_gram(st, sd_, deriv=False):
    """sum over common support of int psi_i . phi_j (or surface gradients) by reference quadrature."""
    g = st.grid
    V, E = np.asarray(g.vertices), np.asarray(g.elements).astype(int)
    lp, w = refnum.tri_rule(3)
    R = np.zeros((st.global_dof_count, sd_.global_dof_count))
    l2t, l2d = np.asarray(st.local2global).astype(int), np.asarray(sd_.local2global).astype(int)
    mt, md = np.asarray(st.local_multipliers).astype(float), np.asarray(sd_.local_multipliers).astype(float)
    both = np.flatnonzero(np.asarray(st.support) & np.asarray(sd_.support))
    for e in both:
        p = [V[:, E[i, e]] for i in range(3)]
        cr = np.cross(p[1] - p[0], p[2] - p[0])
        ie = np.linalg.norm(cr)
        if deriv:
            n = cr / ie
            grads = np.array([np.cross(n, p[(i + 2) % 3] - p[(i + 1) % 3]) / ie for i in range(3)])  # (3 shape, 3 comp)
            loc = 0.5 * ie * (grads @ grads.T) * np.outer(mt[e], md[e])
        else:
            bt = sg.ref_basis(st, int(e), lp)
            bd = sg.ref_basis(sd_, int(e), lp)
            loc = ie * np.einsum("q,ciq,cjq->ij", w, bt, bd)
        for i in range(loc.shape[0]):
            for j in range(loc.shape[1]):
                R[l2t[e, i], l2d[e, j]] += loc[i, j]
    return R


def check_identity(desc):
    import bempp_cl.api
    from bempp_cl.api.operators.boundary import sparse

    g = mg.make_grid(desc["mesh"])
    if not (_ok_space(g, desc["test"]) and _ok_space(g, desc["trial"])):
        return {"nontrivial": False, "labels": ["skipped"]}
    st, kwt = sg.build_space(g, desc["test"])
    sd_, kwd = sg.build_space(g, desc["trial"])
    par = og.make_params(desc["order"], 4)
    which = desc.get("op", "I")
    f = sparse.identity if which == "I" else sparse.laplace_beltrami
    A = f(sd_, sd_, st, parameters=par).weak_form().to_sparse().toarray()
    R = _ref_gram(st, sd_, deriv=(which == "LB"))
    # scale by the sizes of the bases (a mixed matrix such as RWG x SNC on a flat mesh is identically zero)
    scale = np.sqrt(np.max(np.abs(np.diag(_ref_gram(st, st, deriv=(which == "LB"))))) * np.max(np.abs(np.diag(_ref_gram(sd_, sd_, deriv=(which == "LB"))))))
    err = float(np.max(np.abs(A - R))) / max(scale, 1e-300) if A.shape == R.shape else 1.0
    tag = f"{which}/{desc['test']['kind']}x{desc['trial']['kind']}"
    if A.shape != R.shape or err > TOL:
        i, j = np.unravel_index(np.argmax(np.abs(A - R)), A.shape)
        _fail(f"gram/{tag}", f"entry ({i},{j}) = {A[i, j]:.10g}, exact inner product {R[i, j]:.10g} (max rel diff {err:.2e}), order {desc['order']}")
    labels = ["gram", which, tag]
    same = desc["test"] == desc["trial"]
    if same:
        if np.max(np.abs(A - A.T)) > 1e-12 * np.max(np.abs(A)):
            _fail(f"symmetry/{tag}", "matrix for equal spaces is not symmetric")
        ev = np.linalg.eigvalsh(0.5 * (A + A.T))
        if which == "I" and ev.min() <= 0:
            _fail(f"spd/{tag}", f"mass matrix is not positive definite (min eigenvalue {ev.min():.2e})")
        if which == "LB" and ev.min() < -1e-10 * max(1.0, ev.max()):
            _fail(f"psd/{tag}", f"Laplace-Beltrami matrix is not positive semi-definite (min eigenvalue {ev.min():.2e})")
        labels.append("equal_spaces")
    topo = mg.topology(np.asarray(g.elements))
    closed = not topo["boundary_edges"]
    whole = not desc["test"].get("sel") and not desc["trial"].get("sel")
    pou_kinds = {"DP0", "P1"}
    if which == "I" and desc["test"]["kind"] in pou_kinds and desc["trial"]["kind"] in pou_kinds and whole and (closed or all(
            sd.get("ibd") or sd["kind"] == "DP0" for sd in (desc["test"], desc["trial"]))):
        area = float(np.sum(g.volumes))
        if abs(A.sum() - area) > 1e-11 * area:
            _fail(f"area/{tag}", f"entries sum to {A.sum():.12g}, surface area is {area:.12g}")
        labels.append("sums_to_area")
    if which == "LB" and desc["trial"]["kind"] == "P1" and whole and closed:
        r = A @ np.ones(A.shape[1])
        if np.max(np.abs(r)) > 1e-11 * np.max(np.abs(A)):
            _fail("lb_constants", "Laplace-Beltrami does not annihilate constants on a closed grid")
        labels.append("constants_in_kernel")
    if desc["test"].get("sel") or desc["trial"].get("sel"):
        labels.append("segment")
    nontrivial = bool(desc["mesh"].get("edits")) or desc["mesh"].get("amp", 0) > 0
    return {"nontrivial": nontrivial, "labels": labels, "measured": {"rel_err": err}}


def _direct(space, c, fn):
    """Direct reference quadrature of fn(values (cod,Q), weights*ie) summed over the support."""
    g = space.grid
    V, E = np.asarray(g.vertices), np.asarray(g.elements).astype(int)
    lp, w = refnum.tri_rule(4)
    gc = sg.grid_coeffs(space, c)
    tot = 0
    for e in np.flatnonzero(np.asarray(space.support)):
        ie = np.linalg.norm(np.cross(V[:, E[1, e]] - V[:, E[0, e]], V[:, E[2, e]] - V[:, E[0, e]]))
        v = sg.eval_function(space, c, int(e), lp, gc)
        tot = tot + fn(v, w * ie)
    return tot


def check_gridfunction(desc):
    import bempp_cl.api

    g = mg.make_grid(desc["mesh"])
    sd = desc["space"]
    if not _ok_space(g, sd):
        return {"nontrivial": False, "labels": ["skipped"]}
    space, kw = sg.build_space(g, sd)
    rng = np.random.default_rng(int(desc["cseed"]))
    c = rng.standard_normal(space.global_dof_count)
    if desc.get("complex"):
        c = c + 1j * rng.standard_normal(space.global_dof_count)
    par = og.make_params(desc["order"], 4)
    gf = bempp_cl.api.GridFunction(space, coefficients=c, parameters=par)
    kind = sd["kind"]
    mag = float(np.max(np.abs(c)))
    V, E = np.asarray(g.vertices), np.asarray(g.elements).astype(int)
    area = float(np.sum(np.asarray(g.volumes)[np.asarray(space.support)]))
    # integrate
    ref = _direct(space, c, lambda v, w: (v * w[None, :]).sum(axis=1))
    lib = gf.integrate()
    if np.max(np.abs(np.asarray(lib).ravel() - np.asarray(ref).ravel())) > 1e-10 * mag * max(area, 1e-300) * max(1.0, 1.0 / np.sqrt(area)):
        _fail(f"integrate/{kind}", f"integrate() = {np.asarray(lib).ravel()}, direct quadrature {np.asarray(ref).ravel()}")
    # l2 norm
    refn = np.sqrt(_direct(space, c, lambda v, w: float((np.abs(v) ** 2 * w[None, :]).sum())))
    libn = gf.l2_norm()
    if abs(libn - refn) > 1e-10 * max(refn, 1e-300):
        _fail(f"l2_norm/{kind}", f"l2_norm() = {libn!r}, direct quadrature {refn!r}")
    # projections onto a dual space of another kind on the same support selection
    dual_kind = {"DP0": "P1", "DP1": "DP0", "P1": "DP1", "RWG": "SNC", "SNC": "RWG"}[kind]
    dsd = dict(sd)
    dsd["kind"] = dual_kind
    if dual_kind in ("DP0", "DP1"):
        dsd.pop("ibd", None)
        dsd.pop("trunc", None)
    if _ok_space(g, dsd):
        dual, _ = sg.build_space(g, dsd)
        Rm = _ref_gram(dual, space)
        want = Rm @ c
        got = gf.projections(dual)
        nt = np.sqrt(np.max(np.diag(_ref_gram(dual, dual))))
        nd = np.sqrt(np.max(np.diag(_ref_gram(space, space))))
        if np.max(np.abs(got - want)) > 1e-10 * max(np.max(np.abs(want)), mag * nt * nd):
            _fail(f"projections/{kind}_on_{dual_kind}", f"projections(dual) deviates from int psi_i f by {np.max(np.abs(got - want)):.2e}")
    # evaluate_on_element_centers
    cen = np.array([[1 / 3], [1 / 3]])
    gc = sg.grid_coeffs(space, c)
    ec = gf.evaluate_on_element_centers()
    for e in range(E.shape[1]):
        want = sg.eval_function(space, c, e, cen, gc)[:, 0]
        if np.max(np.abs(ec[:, e] - want)) > 1e-11 * max(mag, np.max(np.abs(want)), 1e-300) * 10:
            _fail(f"element_centers/{kind}", f"element {e}: {ec[:, e]} vs {want}")
    # evaluate_on_vertices: area-weighted average over adjacent support elements (documented)
    corners = np.array([[0.0, 1.0, 0.0], [0.0, 0.0, 1.0]])
    ev = gf.evaluate_on_vertices()
    acc = np.zeros((space.codomain_dimension, V.shape[1]), dtype=complex)
    wsum = np.zeros(V.shape[1])
    areas = 0.5 * np.linalg.norm(np.cross((V[:, E[1]] - V[:, E[0]]).T, (V[:, E[2]] - V[:, E[0]]).T), axis=1)
    for e in np.flatnonzero(np.asarray(space.support)):
        vals = sg.eval_function(space, c, int(e), corners, gc)
        for i in range(3):
            acc[:, E[i, e]] += vals[:, i] * areas[e]
            wsum[E[i, e]] += areas[e]
    used = wsum > 0
    acc[:, used] /= wsum[used]
    if np.max(np.abs(ev - acc)) > 1e-10 * max(np.max(np.abs(acc)), 1e-300):
        _fail(f"vertices/{kind}", f"evaluate_on_vertices deviates from the area-weighted average by {np.max(np.abs(ev - acc)):.2e}")
    labels = ["gridfunction", kind]
    if desc.get("complex"):
        labels.append("complex")
    if sd.get("sel"):
        labels.append("segment")
    nontrivial = (bool(desc["mesh"].get("edits")) or desc["mesh"].get("amp", 0) > 0) and (bool(sd.get("sel")) or kind in ("RWG", "SNC") or bool(desc.get("complex")))
    return {"nontrivial": nontrivial, "labels": labels}


def _member_callable(space, c, variant, g):
    """A callable (in the requested API variant) that equals sum c_i phi_i, and the exact coefficients."""
    import bempp_cl.api

    kind = space.identifier
    cplx = np.iscomplexobj(c)
    V, E = np.asarray(g.vertices), np.asarray(g.elements).astype(int)
    gcoef = sg.grid_coeffs(space, c)
    sup = np.flatnonzero(np.asarray(space.support))
    Es = E[:, sup]

    def value(x, n):
        try:
            ce, cl = sg.locate_points(V, Es, x.reshape(3, 1), n, strict=True)
        except sg.AmbiguousLocation as exc:
            # generated mesh folds onto itself (coplanar overlapping elements): a callable that finds its element geometrically is
            # not well defined there; the case is discarded (counted as rejected), it says nothing about the library
            from vlib.pbt import Rejected

            raise Rejected(str(exc))
        e = int(sup[ce[0]])
        return sg.eval_function(space, c, e, cl, gcoef)[:, 0]

    if variant == "vectorized":
        def f(x, n, d, res):
            for j in range(x.shape[1]):
                res[:, j] = value(x[:, j], n[:, j])
        return bempp_cl.api.callable(f, complex=cplx, vectorized=True), None
    if variant == "vectorized_param":
        def f(x, n, d, res, par):
            for j in range(x.shape[1]):
                res[:, j] = par[0] * value(x[:, j], n[:, j])
        return bempp_cl.api.callable(f, complex=cplx, vectorized=True, parameterized=True), np.array([2.0])
    if variant == "nonjit_param":
        def f(x, n, d, res, par):
            res[:] = par[0] * value(x, n)
        return bempp_cl.api.callable(f, complex=cplx, jit=False, parameterized=True), np.array([2.0])

    def f(x, n, d, res):
        res[:] = value(x, n)
    return bempp_cl.api.callable(f, complex=cplx, jit=False), None


def check_projection(desc):
    """Projecting a callable that lies in the space returns its coefficients."""
    import bempp_cl.api

    g = mg.make_grid(desc["mesh"])
    sd = desc["space"]
    if not _ok_space(g, sd):
        return {"nontrivial": False, "labels": ["skipped"]}
    space, kw = sg.build_space(g, sd)
    rng = np.random.default_rng(int(desc["cseed"]))
    variant = desc["variant"]
    kind = sd["kind"]
    par = og.make_params(desc["order"], 4)
    labels = ["projection", variant, kind]
    if variant.startswith("jit"):
        # jit-compiled closed-form members: affine functions for P1/DP1 on the whole support, domain-indexed constants for DP0
        a = rng.standard_normal(3)
        b = float(rng.standard_normal())
        ai = rng.standard_normal(3)
        cplx = variant == "jit_complex"
        if kind == "DP0":
            doms = np.asarray(g.domain_indices)

            if cplx:
                @bempp_cl.api.complex_callable
                def f(x, n, d, res):
                    res[0] = (d % 7) * 1.5 - 2.0 + 1j * (d % 5)
                want = np.array([(d % 7) * 1.5 - 2.0 + 1j * (d % 5) for d in doms[np.asarray(space.support)]])
            else:
                @bempp_cl.api.real_callable
                def f(x, n, d, res):
                    res[0] = (d % 7) * 1.5 - 2.0
                want = np.array([(d % 7) * 1.5 - 2.0 for d in doms[np.asarray(space.support)]])
            fp = None
        else:
            a0, a1, a2 = (float(t) for t in a)
            i0, i1, i2 = (float(t) for t in ai)
            if variant == "jit_param":
                @bempp_cl.api.callable(parameterized=True)
                def f(x, n, d, res, p):
                    res[0] = p[0] * x[0] + p[1] * x[1] + p[2] * x[2] + p[3]
                fp = np.array([a0, a1, a2, b])
            elif cplx:
                @bempp_cl.api.complex_callable
                def f(x, n, d, res):
                    res[0] = a0 * x[0] + a1 * x[1] + a2 * x[2] + b + 1j * (i0 * x[0] + i1 * x[1] + i2 * x[2])
                fp = None
            else:
                @bempp_cl.api.real_callable
                def f(x, n, d, res):
                    res[0] = a0 * x[0] + a1 * x[1] + a2 * x[2] + b
                fp = None
            V, E = np.asarray(g.vertices), np.asarray(g.elements).astype(int)
            l2g = np.asarray(space.local2global).astype(int)
            mult = np.asarray(space.local_multipliers)
            want = np.zeros(space.global_dof_count, dtype=complex if cplx else float)
            for e in np.flatnonzero(np.asarray(space.support)):
                for i in range(3):
                    if mult[e, i] != 0:
                        xv = V[:, E[i, e]]
                        want[l2g[e, i]] = a @ xv + b + (1j * (ai @ xv) if cplx else 0)
            # an affine function is in the space only if every vertex of the support carries a dof
            if kind == "P1":
                ent = sg.model_dof_entities(g, "P1", kw)
                req = sg.requested_support(g, kw)
                need = {("vertex", int(v)) for e in np.flatnonzero(req) for v in E[:, e]}
                if ent != need or not np.array_equal(req, np.asarray(space.support)):
                    return {"nontrivial": False, "labels": ["skipped_not_member"]}
        gf = bempp_cl.api.GridFunction(space, fun=f, parameters=par, function_parameters=fp)
        got = gf.coefficients
    else:
        c = rng.standard_normal(space.global_dof_count)
        if desc.get("complex"):
            c = c + 1j * rng.standard_normal(space.global_dof_count)
        f, fp = _member_callable(space, c, variant, g)
        gf = bempp_cl.api.GridFunction(space, fun=f, parameters=par, function_parameters=fp)
        got = gf.coefficients
        want = c * (2.0 if fp is not None else 1.0)
    err = np.max(np.abs(got - want)) / max(np.max(np.abs(want)), 1e-300)
    if err > 1e-8:
        _fail(f"projection/{variant}/{kind}", f"projected coefficients deviate from the exact ones by {err:.2e} (order {desc['order']})")
    if sd.get("sel"):
        labels.append("segment")
    return {"nontrivial": True, "labels": labels, "measured": {"rel_err": float(err)}}


def check_multiplication(desc):
    import bempp_cl.api
    from bempp_cl.api.assembly.boundary_operator import MultiplicationOperator

    g = mg.make_grid(desc["mesh"])
    mode = desc["mode"]
    sdg, sdd, sdt = desc["fun"], desc["trial"], desc["test"]
    if not all(_ok_space(g, s) for s in (sdg, sdd, sdt)):
        return {"nontrivial": False, "labels": ["skipped"]}
    sg_, _ = sg.build_space(g, sdg)
    sd_, _ = sg.build_space(g, sdd)
    st, _ = sg.build_space(g, sdt)
    rng = np.random.default_rng(int(desc["cseed"]))
    c = rng.standard_normal(sg_.global_dof_count)
    if desc.get("complex"):
        c = c + 1j * rng.standard_normal(sg_.global_dof_count)
    gf = bempp_cl.api.GridFunction(sg_, coefficients=c)
    par = og.make_params(desc["order"], 4)
    A = MultiplicationOperator(gf, sd_, sd_, st, parameters=par, mode=mode).weak_form().to_sparse().toarray()
    V, E = np.asarray(g.vertices), np.asarray(g.elements).astype(int)
    lp, w = refnum.tri_rule(4)
    R = np.zeros((st.global_dof_count, sd_.global_dof_count), dtype=A.dtype)
    Rabs = np.zeros((st.global_dof_count, sd_.global_dof_count))
    l2t, l2d = np.asarray(st.local2global).astype(int), np.asarray(sd_.local2global).astype(int)
    gcf = sg.grid_coeffs(sg_, c)
    for e in np.flatnonzero(np.asarray(st.support) & np.asarray(sd_.support) & np.asarray(sg_.support)):
        ie = np.linalg.norm(np.cross(V[:, E[1, e]] - V[:, E[0, e]], V[:, E[2, e]] - V[:, E[0, e]]))
        gv = sg.eval_function(sg_, c, int(e), lp, gcf)  # (cod, Q)
        bt = sg.ref_basis(st, int(e), lp)
        bd = sg.ref_basis(sd_, int(e), lp)
        if mode == "component":
            prod = bd * gv[:, None, :]
        else:
            prod = np.sum(bd * gv[:, None, :], axis=0, keepdims=True)
        loc = ie * np.einsum("q,ciq,cjq->ij", w, bt, prod)
        if mode == "component":
            aprod = np.abs(bd) * np.abs(gv)[:, None, :]
        else:
            aprod = np.sum(np.abs(bd) * np.abs(gv)[:, None, :], axis=0, keepdims=True)  # before cancellation in the inner product
        laba = ie * np.einsum("q,ciq,cjq->ij", w, np.abs(bt), aprod)
        for i in range(loc.shape[0]):
            for j in range(loc.shape[1]):
                R[l2t[e, i], l2d[e, j]] += loc[i, j]
                Rabs[l2t[e, i], l2d[e, j]] += laba[i, j]
    err = float(np.max(np.abs(A - R))) / max(float(np.max(Rabs)), 1e-300)
    if err > 1e-10:
        _fail(f"multiplication/{mode}/{sdg['kind']}", f"MultiplicationOperator deviates from int g phi_j psi_i by {err:.2e}")
    labels = ["multiplication", mode]
    if sdd.get("sel") or sdt.get("sel") or sdg.get("sel"):
        labels.append("segment")
    return {"nontrivial": True, "labels": labels, "measured": {"rel_err": err}}


CHECKS = {"identity": check_identity, "gridfunction": check_gridfunction, "projection": check_projection, "multiplication": check_multiplication}

_SCALAR = ["DP0", "DP1", "P1"]
_VECTOR = ["RWG", "SNC"]
_DEG = {"DP0": 0, "DP1": 1, "P1": 1, "RWG": 1, "SNC": 1}


def shards(tier, seed=1):
    from vlib.pbt import rot

    q = tier == "quick"
    n = 1 if q else 10
    out = []
    for grp in ("scalar", "vector"):
        out.append({"check": "identity", "group": grp, "op": "I", "examples": 40 * n, "budget_s": 200 * n})
    out.append({"check": "identity", "group": "lb", "op": "LB", "examples": 30 * n, "budget_s": 200 * n})
    for grp in ("scalar", "vector"):
        out.append({"check": "gridfunction", "group": grp, "examples": 25 * n, "budget_s": 200 * n})
    variants = ["jit_real", "vectorized", "jit_complex", "nonjit", "jit_param", "nonjit_param", "vectorized_param"]
    for variant in variants:  # each variant is a different code path of GridFunction.__init__ / get_function_quadrature_information
        out.append({"check": "projection", "variant": variant, "examples": (6 if q else 100), "budget_s": (120 if q else 2400)})
    for mode in ("component", "inner"):
        out.append({"check": "multiplication", "mode": mode, "examples": 15 * n, "budget_s": 200 * n})
    return out


def strategy(spec):
    from hypothesis import strategies as st

    def meshes(edge, big=36):
        @st.composite
        def m(draw):
            if edge:
                closed = draw(st.booleans())
                d = draw(mg.mesh_descs("closed" if closed else "open", max_elems=big, domains=True, max_edits=3, allow_refine=False,
                                       bases=None if closed else ["sheet", "strip", "fan"]))
                if d.get("domains", {}).get("mode") == "scatter":
                    d["domains"]["mode"] = "patch"
                return d
            return draw(mg.mesh_descs("any", max_elems=big, domains=True, max_edits=3, allow_refine=False))
        return m()

    c = spec["check"]
    if c == "identity":
        grp = spec["group"]

        @st.composite
        def s(draw):
            if grp == "lb":
                kinds = ["P1", "DP1"]
            else:
                kinds = _SCALAR if grp == "scalar" else _VECTOR
            t = draw(sg.space_descs(kinds))
            d = draw(sg.space_descs(kinds)) if draw(st.booleans()) else dict(t)
            deg = 0 if grp == "lb" else _DEG[t["kind"]] + _DEG[d["kind"]]
            return {"mesh": draw(meshes(grp == "vector")), "test": t, "trial": d, "op": spec["op"], "order": draw(st.integers(max(1, deg), 20))}
        return s()
    if c == "gridfunction":
        kinds = _SCALAR if spec["group"] == "scalar" else _VECTOR

        @st.composite
        def s(draw):
            return {"mesh": draw(meshes(spec["group"] == "vector")), "space": draw(sg.space_descs(kinds)), "cseed": draw(st.integers(0, 999)),
                    "complex": draw(st.booleans()), "order": draw(st.integers(2, 20))}
        return s()
    if c == "projection":
        variant = spec["variant"]

        @st.composite
        def s(draw):
            if variant.startswith("jit"):
                kinds = ["P1", "DP1", "DP0"] if variant != "jit_param" else ["P1", "DP1"]
                sd = draw(sg.space_descs(kinds))
                if sd["kind"] == "P1":
                    sd["ibd"] = True
                mesh = draw(meshes(False, 24))
            else:
                kinds = draw(st.sampled_from([_SCALAR, _VECTOR]))
                sd = draw(sg.space_descs(kinds))
                mesh = draw(meshes(kinds is _VECTOR, 16))
            return {"mesh": mesh, "space": sd, "variant": variant, "cseed": draw(st.integers(0, 999)), "complex": draw(st.booleans()),
                    "order": draw(st.sampled_from([2, 3, 4, 5, 6, 7, 8, 9, 10, 12]))}
        return s()

    @st.composite
    def s(draw):
        mode = spec["mode"]
        if mode == "inner":
            fun = draw(sg.space_descs(_VECTOR))
            trial = draw(sg.space_descs(_VECTOR))
            test = draw(sg.space_descs(_SCALAR))
            mesh = draw(meshes(True, 24))
        else:
            vec = draw(st.booleans())
            kinds = _VECTOR if vec else _SCALAR
            fun, trial, test = (draw(sg.space_descs(kinds)) for _ in range(3))
            mesh = draw(meshes(vec, 24))
        return {"mesh": mesh, "mode": mode, "fun": fun, "trial": trial, "test": test, "cseed": draw(st.integers(0, 999)),
                "complex": draw(st.booleans()), "order": draw(st.integers(4, 12))}
    return s()


def required_labels(tier):
    base = ["gram", "I", "LB", "gridfunction", "projection", "multiplication", "segment", "complex", "RWG", "SNC", "P1", "DP0", "DP1"]
    return base if tier == "quick" else base + ["jit_real", "jit_complex", "jit_param", "nonjit", "vectorized", "sums_to_area", "constants_in_kernel", "equal_spaces"]



"""C06 Hypersingular and Maxwell operators equal their single-layer decompositions."""

import numpy as np

from vlib.pbt import Violation
from vlib import meshgen as mg
from vlib import spacegen as sg
from vlib import opgen as og
from props.c04 import harness_T

LEVEL = "exploration"
RULE = (
    "(mesh closed/open, P1/DP1 or RWG/SNC space descriptors with segments and boundary-dof options, wavenumber real/complex/imaginary, "
    "quadrature orders): W == sum_c C_c^T V0 C_c - k^2 sum_c N_c^T V1 N_c and E == -ik sum_c R_c^T V1 R_c - (1/ik) D^T V0 D to rounding, "
    "with V0/V1 the library's single-layer matrices on full-grid DP0/DP1 and C, N, R, D built by the harness from its own geometry and "
    "reference RWG functions; Laplace W annihilates constants on closed grids (exact); E and M complex-symmetric for equal edge spaces "
    "under a singular-order ladder. Non-trivial = |k|D in [0.1,10] or proper subspace; distinct by descriptor hash."
)
ORACLES = ["algebraic decomposition through independently built sparse maps", "symmetry under convergence ladder", "W 1 = 0"]
ASSUMPTIONS = ["the single-layer matrices V0, V1 themselves are judged by C01/C05/C07, not here"]

TOL = 2e-11


def _fail(sig, msg):
    raise Violation("C06/" + sig, msg)


def _geom(g):
    V, E = np.asarray(g.vertices), np.asarray(g.elements).astype(int)
    p = [V[:, E[i]].T for i in range(3)]
    cr = np.cross(p[1] - p[0], p[2] - p[0])
    ie = np.linalg.norm(cr, axis=1)
    n = cr / ie[:, None]
    return V, E, p, ie, n


def hypersingular_maps(g, normal_mult):
    """C_c (DP1 -> DP0, components of n x grad phi_i) and N_c (DP1 -> DP1, phi_i n_c), c=0..2."""
    from scipy.sparse import coo_matrix

    V, E, p, ie, n = _geom(g)
    ne = E.shape[1]
    C = []
    N = []
    # gradient of the hat function of vertex i on a flat triangle: (n x e_opp)/(2A), e_opp = edge opposite vertex i (ccw)
    grads = np.empty((ne, 3, 3))
    for i in range(3):
        e_opp = p[(i + 2) % 3] - p[(i + 1) % 3]
        grads[:, i, :] = np.cross(n, e_opp) / ie[:, None]
    neff = n * normal_mult[:, None]
    curls = np.cross(neff[:, None, :], grads)  # (ne, 3 shape, 3 comp)
    for c in range(3):
        rows = np.repeat(np.arange(ne), 3)
        cols = (3 * np.arange(ne)[:, None] + np.arange(3)[None, :]).ravel()
        C.append(coo_matrix((curls[:, :, c].ravel(), (rows, cols)), shape=(ne, 3 * ne)).tocsr())
        d = np.repeat(neff[:, c], 3)
        N.append(coo_matrix((d, (np.arange(3 * ne), np.arange(3 * ne))), shape=(3 * ne, 3 * ne)).tocsr())
    return C, N


def maxwell_maps(g):
    """R_c (localised RWG -> DP1 coefficients of Cartesian component c) and D (localised RWG -> DP0 divergence)."""
    from scipy.sparse import coo_matrix

    V, E, p, ie, n = _geom(g)
    ne = E.shape[1]
    edges = [(0, 1), (2, 0), (1, 2)]
    opp = [2, 1, 0]
    R = []
    rows, cols, vals = [[], [], []], [[], [], []], [[], [], []]
    drows, dcols, dvals = [], [], []
    for i in range(3):
        a, b = edges[i]
        l = np.linalg.norm(p[a] - p[b], axis=1)
        for v in range(3):
            f = (l / ie)[:, None] * (p[v] - p[opp[i]])  # value of f_i at vertex v
            for c in range(3):
                rows[c] += list(3 * np.arange(ne) + v)
                cols[c] += list(3 * np.arange(ne) + i)
                vals[c] += list(f[:, c])
        drows += list(np.arange(ne))
        dcols += list(3 * np.arange(ne) + i)
        dvals += list(2 * l / ie)
    for c in range(3):
        R.append(coo_matrix((vals[c], (rows[c], cols[c])), shape=(3 * ne, 3 * ne)).tocsr())
    D = coo_matrix((dvals, (drows, dcols)), shape=(ne, 3 * ne)).tocsr()
    return R, D


def _spaces_ok(g, sds):
    for sd in sds:
        kw = sg.space_kwargs(g, sd)
        if sd["kind"] in sg.EDGE_KINDS and not sg.support_is_manifold(g, kw):
            return False
        if len(sg.model_dof_entities(g, sd["kind"], kw)) == 0:
            return False
    return True


def check_hypersingular(desc):
    import bempp_cl.api

    g = mg.make_grid(desc["mesh"])
    fam = desc["fam"]
    k = og.wavenumber(desc["k"]) if desc.get("k") is not None else None
    par = og.make_params(*desc["orders"])
    if not _spaces_ok(g, [desc["test"], desc["trial"]]):
        return {"nontrivial": False, "labels": ["skipped"]}
    st, _ = sg.build_space(g, desc["test"])
    sd_, _ = sg.build_space(g, desc["trial"])
    W = og.dense(og.boundary_operator(fam, "W", sd_, sd_, st, k, parameters=par))
    dp0 = bempp_cl.api.function_space(g, "DP", 0)
    dp1 = bempp_cl.api.function_space(g, "DP", 1)
    V0 = og.dense(og.boundary_operator(fam, "V", dp0, dp0, dp0, k, parameters=par))
    Ct, Nt = hypersingular_maps(g, np.asarray(st.normal_multipliers).astype(float))
    Cd, Nd = hypersingular_maps(g, np.asarray(sd_.normal_multipliers).astype(float))
    Tt, Td = harness_T(st), harness_T(sd_)
    R = sum((Ct[c] @ Tt).T @ V0 @ (Cd[c] @ Td) for c in range(3))
    if fam != "laplace":
        V1 = og.dense(og.boundary_operator(fam, "V", dp1, dp1, dp1, k, parameters=par))
        k2 = (k * k) if fam == "helmholtz" else -(k * k)  # modified Helmholtz omega <-> k = i omega
        R = R - k2 * sum((Nt[c] @ Tt).T @ V1 @ (Nd[c] @ Td) for c in range(3))
    R = np.asarray(R)
    err = og.relerr(W, R)
    if err > TOL:
        i, j = np.unravel_index(np.argmax(np.abs(W - R)), W.shape)
        _fail(f"decomposition/{fam}_W/{desc['test']['kind']}x{desc['trial']['kind']}", f"W differs from sum_c C^T V0 C - k^2 sum_c N^T V1 N by {err:.2e} "
              f"(entry ({i},{j}): {W[i, j]:.8g} vs {R[i, j]:.8g}), k={k}, orders={desc['orders']}")
    labels = ["hypersingular", fam]
    topo = mg.topology(np.asarray(g.elements))
    closed = not topo["boundary_edges"]
    if fam == "laplace" and closed and desc["test"].get("sel") is None and desc["trial"].get("sel") is None and desc["trial"]["kind"] == "P1":
        r = W @ np.ones(W.shape[1])
        if np.max(np.abs(r)) > 1e-12 * np.max(np.abs(W)) * W.shape[1]:
            _fail("constants/laplace_W", f"Laplace hypersingular on a closed grid does not annihilate constants: |W 1| = {np.max(np.abs(r)):.2e}, |W| = {np.max(np.abs(W)):.2e}")
        labels.append("constants_annihilated")
    if k is not None and np.imag(k) != 0:
        labels.append("complex_k")
    labels.append("closed" if closed else "open")
    if desc["test"].get("sel") or desc["trial"].get("sel"):
        labels.append("segment")
    return {"nontrivial": True, "labels": labels, "measured": {"rel_err": err}}


def check_efield(desc):
    import bempp_cl.api

    g = mg.make_grid(desc["mesh"])
    k = og.wavenumber(desc["k"])
    par = og.make_params(*desc["orders"])
    if not _spaces_ok(g, [desc["test"], desc["trial"]]):
        return {"nontrivial": False, "labels": ["skipped"]}
    st, _ = sg.build_space(g, desc["test"])  # SNC
    sd_, _ = sg.build_space(g, desc["trial"])  # RWG
    E = og.dense(og.boundary_operator("maxwell", "E", sd_, sd_, st, k, parameters=par))
    dp0 = bempp_cl.api.function_space(g, "DP", 0)
    dp1 = bempp_cl.api.function_space(g, "DP", 1)
    V0 = og.dense(og.boundary_operator("helmholtz", "V", dp0, dp0, dp0, k, parameters=par))
    V1 = og.dense(og.boundary_operator("helmholtz", "V", dp1, dp1, dp1, k, parameters=par))
    Rm, D = maxwell_maps(g)
    Tt, Td = harness_T(st), harness_T(sd_)
    R = -1j * k * sum((Rm[c] @ Tt).T @ V1 @ (Rm[c] @ Td) for c in range(3)) - (1.0 / (1j * k)) * ((D @ Tt).T @ V0 @ (D @ Td))
    R = np.asarray(R)
    err = og.relerr(E, R)
    if err > TOL:
        i, j = np.unravel_index(np.argmax(np.abs(E - R)), E.shape)
        _fail("decomposition/maxwell_E", f"E differs from -ik sum_c R^T V1 R - (1/ik) D^T V0 D by {err:.2e} (entry ({i},{j}): {E[i, j]:.8g} vs {R[i, j]:.8g}), "
              f"k={k}, orders={desc['orders']}")
    labels = ["efield"]
    if np.imag(k) != 0:
        labels.append("complex_k")
    if desc["test"].get("sel") or desc["trial"].get("sel"):
        labels.append("segment")
    if desc["test"].get("ibd") or desc["trial"].get("ibd"):
        labels.append("boundary_dofs")
    return {"nontrivial": True, "labels": labels, "measured": {"rel_err": err}}


def check_symmetry(desc):
    """E = E^T and M = M^T (up to singular quadrature error) when test and trial come from the same edge space."""
    g = mg.make_grid(desc["mesh"])
    D = float(np.linalg.norm(g.bounding_box[:, 1] - g.bounding_box[:, 0]))
    k = og.wavenumber(desc["k"]) / D
    sdr = dict(desc["space"])
    sdr["kind"] = "RWG"
    sds = dict(desc["space"])
    sds["kind"] = "SNC"
    if not _spaces_ok(g, [sdr]):
        return {"nontrivial": False, "labels": ["skipped"]}
    rwg, _ = sg.build_space(g, sdr)
    snc, _ = sg.build_space(g, sds)
    op = desc["op"]
    errs = []
    ladder = desc.get("ladder", [[4, 3], [6, 6], [8, 9]])
    for reg, sing in ladder:
        A = og.dense(og.boundary_operator("maxwell", op, rwg, rwg, snc, k, parameters=og.make_params(reg, sing)))
        errs.append(og.relerr(A, A.T, og.entry_floor(g, "maxwell", op)))
    if errs[-1] > 1e-6 and errs[-1] > 0.05 * errs[0]:
        _fail(f"symmetry/maxwell_{op}", f"||A - A^T||/||A|| = {['%.1e' % e for e in errs]} on ladder {ladder}: not complex-symmetric up to quadrature error")
    return {"nontrivial": True, "labels": ["symmetry", op], "measured": {"errors": errs}}


CHECKS = {"hypersingular": check_hypersingular, "efield": check_efield, "symmetry": check_symmetry}


def shards(tier, seed=1):
    from vlib.pbt import rot

    q = tier == "quick"
    n = 1 if q else 8
    out = []
    fams = ["helmholtz", "laplace", "modified"]
    for fam in fams:  # three different assemblers (laplace/helmholtz/modified_helmholtz hypersingular): all of them in every tier
        out.append({"check": "hypersingular", "fam": fam, "examples": 20 * n, "budget_s": 260 * n})
    for rep in range(1 if q else 3):
        out.append({"check": "efield", "examples": 20 * n, "budget_s": 300 * n, "rep": rep})
    for op in ["E", "M"]:
        out.append({"check": "symmetry", "op": op, "examples": 4 * n, "budget_s": 300 * n})
    return out


def strategy(spec):
    from hypothesis import strategies as st

    kc = st.sampled_from([[1.0, 0], [2.5, 1.0], [0.3, -0.2], [4.0, 0], [-1.5, 0.5], [0.05, 0], [0, 1.5], [3.0, 2.0]])
    if spec["check"] == "hypersingular":
        fam = spec["fam"]

        @st.composite
        def s(draw):
            mesh = draw(mg.mesh_descs("any", max_elems=30, domains=True, max_edits=3, allow_refine=False))
            k = None if fam == "laplace" else (draw(st.sampled_from([[0.5, 0], [2.0, 0], [6.0, 0]])) if fam == "modified" else draw(kc))
            if fam == "helmholtz" and k[0] == 0:
                k = [1.0, k[1]]
            return {"mesh": mesh, "fam": fam, "k": k, "orders": [draw(st.integers(1, 6)), draw(st.integers(2, 5))],
                    "test": draw(sg.space_descs(["P1", "DP1"])), "trial": draw(sg.space_descs(["P1", "DP1"]))}
        return s()
    if spec["check"] == "efield":
        @st.composite
        def s(draw):
            closed = draw(st.booleans())
            mesh = draw(mg.mesh_descs("closed" if closed else "open", max_elems=30, domains=True, max_edits=3, allow_refine=False,
                                      bases=None if closed else ["sheet", "strip", "fan"]))
            if mesh.get("domains", {}).get("mode") == "scatter":
                mesh["domains"]["mode"] = "patch"
            k = draw(kc)
            if k[0] == 0 and k[1] == 0:
                k = [1.0, 0]
            return {"mesh": mesh, "k": k, "orders": [draw(st.integers(1, 6)), draw(st.integers(2, 5))],
                    "test": draw(sg.space_descs(["SNC"])), "trial": draw(sg.space_descs(["RWG"]))}
        return s()

    @st.composite
    def s(draw):
        closed = draw(st.booleans())
        mesh = draw(mg.mesh_descs("closed" if closed else "open", max_elems=24, cls="regular", max_edits=2, allow_refine=False,
                                  bases=["tetra", "octa", "cube", "icosa"] if closed else ["sheet", "strip", "fan"], domains=True))
        if mesh.get("domains", {}).get("mode") == "scatter":
            mesh["domains"]["mode"] = "patch"
        sd = draw(sg.space_descs(["RWG"]))
        return {"mesh": mesh, "k": draw(st.sampled_from([[1.0, 0], [2.0, 0.7], [0.4, 0.3], [3.0, 0]])), "space": sd, "op": spec["op"]}
    return s()


def required_labels(tier):
    return ["hypersingular", "efield", "symmetry"] if tier == "quick" else [
        "hypersingular", "laplace", "helmholtz", "modified", "efield", "complex_k", "segment", "symmetry", "constants_annihilated", "open", "closed"]



"""C03 Boundary operators are equivariant under motion, scaling and relabelling."""

import numpy as np

from vlib.pbt import Violation
from vlib import meshgen as mg
from vlib import spacegen as sg
from vlib import opgen as og

LEVEL = "exploration"
RULE = (
    "(mesh closed/open/multi-domain, transformation in {rigid motion, uniform scaling s in [1e-2,1e2] with wavenumber k/s, vertex+element "
    "permutation with per-element local rotation, swapped_normals flag on a domain set vs physically reversed elements}, operator family "
    "(Laplace/Helmholtz/modified Helmholtz V,K,K',W; Maxwell E,M; identity; Laplace-Beltrami), space pair, real/complex k): matrices on "
    "the original and transformed grid are related by A' = s^p Q_t^T A Q_d, where the signed permutations Q are MEASURED by matching the "
    "physical description of every dof (vertex position, element centroid, (centroid, vertex), (edge midpoint, + -> - direction)) computed "
    "from the spaces' definition data. Motion and scaling: exact tolerance; relabelling and orientation: singular-order ladder. "
    "Non-trivial = transformation is not the identity; distinct by (mesh, transformation, operator, spaces)."
)
ORACLES = ["metamorphic relations with measured dof correspondence", "homogeneity exponents from dimensional analysis"]
ASSUMPTIONS = ["scaling exponents: V 3, K/K' 2, W 1, Maxwell E/M 2, identity 2, Laplace-Beltrami 0 (validated on the unchanged tree)"]

_EXP = {"V": 3, "K": 2, "Kp": 2, "W": 1, "E": 2, "M": 2, "I": 2, "LB": 0}


def _fail(sig, msg):
    raise Violation("C03/" + sig, msg)


def dof_signatures(space, transform=None):
    """Physical description of every global dof, from definition data only. Returns list of (key array, orientation array or None)."""
    g = space.grid
    V = np.asarray(g.vertices)
    if transform is not None:
        V = transform(V)
    E = np.asarray(g.elements).astype(int)
    l2g = np.asarray(space.local2global).astype(int)
    mult = np.asarray(space.local_multipliers).astype(float)
    sup = np.flatnonzero(np.asarray(space.support))
    n = space.global_dof_count
    ident = space.identifier
    shp = space.shapeset.identifier
    keys = [None] * n
    ori = [None] * n
    cent = (V[:, E[0]] + V[:, E[1]] + V[:, E[2]]) / 3
    if shp == "p0_discontinuous":
        for e in sup:
            keys[l2g[e, 0]] = cent[:, e]
    elif shp == "p1_discontinuous" and ident == "p1_discontinuous":
        for e in sup:
            for i in range(3):
                keys[l2g[e, i]] = np.concatenate([cent[:, e], V[:, E[i, e]]])
    elif shp == "p1_discontinuous":
        for e in sup:
            for i in range(3):
                if mult[e, i] != 0:
                    keys[l2g[e, i]] = V[:, E[i, e]]
    else:
        edges = [(0, 1), (2, 0), (1, 2)]
        plus = {}
        minus = {}
        mid = {}
        for e in sup:
            for i, (a, b) in enumerate(edges):
                if mult[e, i] == 0:
                    continue
                d = l2g[e, i]
                mid[d] = 0.5 * (V[:, E[a, e]] + V[:, E[b, e]])
                (plus if mult[e, i] > 0 else minus)[d] = cent[:, e]
        for d in range(n):
            keys[d] = mid.get(d)
            if d in plus and d in minus:
                ori[d] = minus[d] - plus[d]
            elif d in plus:
                ori[d] = mid[d] - plus[d]
            elif d in minus:
                ori[d] = minus[d] - mid[d]
    return keys, ori


def measure_Q(space_a, space_b, transform):
    """Signed permutation Q with basis_b = basis_a Q (columns), by matching physical dof descriptions."""
    ka, oa = dof_signatures(space_a, transform)
    kb, ob = dof_signatures(space_b, None)
    n = len(ka)
    if any(k is None for k in ka) or any(k is None for k in kb):
        from vlib.pbt import Rejected
        raise Rejected("a dof without supporting element (empty-selection artefact, recorded under C09)")
    if len(kb) != n:
        _fail("dof_correspondence/count", f"spaces on the original and transformed grid have {len(ka)} and {len(kb)} dofs")
    A = np.array(ka)
    B = np.array(kb)
    scale = np.max(np.abs(A)) + 1e-300
    Q = np.zeros((n, n))
    used = set()
    for j in range(n):
        d = np.linalg.norm(A - B[j][None, :], axis=1)
        i = int(np.argmin(d))
        if d[i] > 1e-9 * scale or i in used:
            _fail("dof_correspondence/match", f"dof {j} of the transformed space has no unique counterpart (distance {d[i]:.2e})")
        used.add(i)
        s = 1.0
        if oa[i] is not None and ob[j] is not None:
            s = 1.0 if np.dot(oa[i], ob[j]) > 0 else -1.0
        Q[i, j] = s
    return Q


def _build_pair(desc):
    """Grids and transform for the drawn transformation."""
    import bempp_cl.api

    md = dict(desc["mesh"])
    tk = desc["transform"]["kind"]
    base = {k: v for k, v in md.items() if k not in ("quat", "trans", "lscale", "relabel")}
    m0 = mg.build(base)
    g0 = bempp_cl.api.Grid(m0["vertices"], m0["elements"], m0["domains"].astype("uint32"))
    s = 1.0
    if tk == "motion":
        t = dict(base)
        t["quat"] = desc["transform"]["quat"]
        t["trans"] = desc["transform"]["trans"]
        m1 = mg.build(t)
        Rm = mg._rotation(t["quat"])
        tr = np.array(t["trans"], dtype=float)
        f = lambda V: Rm @ V + tr[:, None]  # noqa: E731
        g1 = bempp_cl.api.Grid(m1["vertices"], m1["elements"], m1["domains"].astype("uint32"))
    elif tk == "scale":
        s = float(desc["transform"]["s"])
        g1 = bempp_cl.api.Grid(m0["vertices"] * s, m0["elements"], m0["domains"].astype("uint32"))
        f = lambda V: V * s  # noqa: E731
    elif tk == "relabel":
        t = dict(base)
        t["relabel"] = desc["transform"]["seed"]
        m1 = mg.build(t)
        g1 = bempp_cl.api.Grid(m1["vertices"], m1["elements"], m1["domains"].astype("uint32"))
        f = lambda V: V  # noqa: E731
    else:
        raise ValueError(tk)
    return g0, g1, f, s


def check_equivariance(desc):
    fam, op = desc["fam"], desc["op"]
    g0, g1, f, s = _build_pair(desc)
    tk = desc["transform"]["kind"]
    sdt, sdd = desc["test"], desc["trial"]
    for sd in (sdt, sdd):
        kw = sg.space_kwargs(g0, sd)
        if sd["kind"] in sg.EDGE_KINDS and not sg.support_is_manifold(g0, kw):
            return {"nontrivial": False, "labels": ["skipped"]}
        if len(sg.model_dof_entities(g0, sd["kind"], kw)) == 0:
            return {"nontrivial": False, "labels": ["skipped"]}
    t0, _ = sg.build_space(g0, sdt)
    d0, _ = sg.build_space(g0, sdd)
    t1, _ = sg.build_space(g1, sdt)
    d1, _ = sg.build_space(g1, sdd)
    Qt = measure_Q(t0, t1, f)
    Qd = measure_Q(d0, d1, f)
    D = float(np.linalg.norm(g0.bounding_box[:, 1] - g0.bounding_box[:, 0]))
    k0 = og.wavenumber(desc["k"]) / D if desc.get("k") is not None else None
    k1 = k0 / s if k0 is not None else None
    exact = tk in ("motion", "scale")
    ladder = [[4, 4]] if exact else desc.get("ladder", [[4, 4], [4, 7], [4, 10]])
    if exact:
        ladder = [[desc.get("reg", 4), desc.get("sing", 4)]]
    errs = []
    for reg, sing in ladder:
        par = og.make_params(reg, sing)
        if fam == "sparse":
            A0 = og.boundary_operator(fam, op, d0, d0, t0, parameters=par).weak_form().to_sparse().toarray()
            A1 = og.boundary_operator(fam, op, d1, d1, t1, parameters=par).weak_form().to_sparse().toarray()
        else:
            A0 = og.dense(og.boundary_operator(fam, op, d0, d0, t0, k0, parameters=par))
            A1 = og.dense(og.boundary_operator(fam, op, d1, d1, t1, k1, parameters=par))
        want = (s ** _EXP[op]) * (Qt.T @ A0 @ Qd)
        # absolute floor: e.g. the magnetic-field operator of a flat screen is identically zero (rounding noise only)
        floor = 1e-4 * (s * D) ** _EXP[op]
        errs.append(float(np.max(np.abs(A1 - want))) / max(float(np.max(np.abs(A1))), float(np.max(np.abs(want))), floor))
    sig = f"{tk}/{fam}_{op}/{sdt['kind']}x{sdd['kind']}"
    if exact:
        if errs[0] > 2e-10:
            _fail(sig, f"matrix on the transformed grid differs from s^{_EXP[op]} Q^T A Q by {errs[0]:.2e} (s={s}, k={k0}, orders {ladder[0]})")
    else:
        # a relabelling changes only which Duffy rule orientation is used on the singular pairs, so the difference must decay with the
        # singular order; measured decay on coarse, sharply curved meshes (3x4 torus, Maxwell M) is only ~30x from order 4 to 10
        if errs[-1] > 1e-7 and errs[-1] > 0.3 * errs[0]:
            _fail(sig, f"relabelled grid: ||A' - Q^T A Q|| = {['%.1e' % e for e in errs]} on singular orders {[l[1] for l in ladder]}: not a quadrature-level difference")
        # (no bound on the lowest rung: on coarse, jittered tori the order-4 singular rule is off by 50 % and still converges - 0.53,
        # 0.12, 0.023, 0.0024 on orders 4, 7, 10, 14; a defect does not decay and is caught by the criterion above)
    labels = ["equivariance", tk, f"{fam}_{op}"]
    if k0 is not None and np.imag(k0) != 0:
        labels.append("complex_k")
    if sdt.get("sel") or sdd.get("sel"):
        labels.append("segment")
    return {"nontrivial": True, "labels": labels, "measured": {"errors": errs}}


def check_orientation(desc):
    """swapped_normals flag on a domain set == physically reversed elements of that set (up to quadrature error)."""
    import bempp_cl.api

    fam, op = desc["fam"], desc["op"]
    m = mg.build(desc["mesh"])
    doms = m["domains"]
    present = sorted(set(int(x) for x in doms))
    S = [present[i % len(present)] for i in desc["swap"]]
    S = sorted(set(S))
    whole = len(S) == len(present)
    g0 = bempp_cl.api.Grid(m["vertices"], m["elements"], doms.astype("uint32"))
    E1 = m["elements"].copy()
    flip = np.isin(doms, S)
    E1[:, flip] = E1[[0, 2, 1]][:, flip]
    g1 = bempp_cl.api.Grid(m["vertices"], E1, doms.astype("uint32"))
    kinds = {"DP0": ("DP", 0), "DP1": ("DP", 1), "P1": ("P", 1), "RWG": ("RWG", 0), "SNC": ("SNC", 0)}
    tk, dk = desc["tkind"], desc["dkind"]
    t0 = bempp_cl.api.function_space(g0, *kinds[tk], swapped_normals=S)
    d0 = bempp_cl.api.function_space(g0, *kinds[dk], swapped_normals=S)
    t1 = bempp_cl.api.function_space(g1, *kinds[tk])
    d1 = bempp_cl.api.function_space(g1, *kinds[dk])
    Qt = measure_Q(t0, t1, lambda V: V)
    Qd = measure_Q(d0, d1, lambda V: V)
    D = float(np.linalg.norm(g0.bounding_box[:, 1] - g0.bounding_box[:, 0]))
    k = og.wavenumber(desc["k"]) / D if desc.get("k") is not None else None
    errs = []
    ladder = desc.get("ladder", [[4, 4], [4, 7], [4, 10]])
    for reg, sing in ladder:
        par = og.make_params(reg, sing)
        if fam == "sparse":
            A0 = og.boundary_operator(fam, op, d0, d0, t0, parameters=par).weak_form().to_sparse().toarray()
            A1 = og.boundary_operator(fam, op, d1, d1, t1, parameters=par).weak_form().to_sparse().toarray()
        else:
            A0 = og.dense(og.boundary_operator(fam, op, d0, d0, t0, k, parameters=par))
            A1 = og.dense(og.boundary_operator(fam, op, d1, d1, t1, k, parameters=par))
        want = Qt.T @ A0 @ Qd
        errs.append(float(np.max(np.abs(A1 - want))) / max(float(np.max(np.abs(A1))), float(np.max(np.abs(want))), 1e-4 * D ** _EXP[op]))
    sig = f"orientation/{fam}_{op}/{tk}x{dk}"
    if errs[-1] > 1e-7 and errs[-1] > 0.3 * errs[0]:
        _fail(sig, f"swapped_normals={S} vs physically reversed elements: ||A_rev - Q^T A_flag Q|| = {['%.1e' % e for e in errs]} on singular orders "
              f"{[l[1] for l in ladder]}")
    return {"nontrivial": len(S) > 0, "labels": ["orientation", f"{fam}_{op}", "whole_reversal" if whole else "partial_reversal"], "measured": {"errors": errs}}


CHECKS = {"equivariance": check_equivariance, "orientation": check_orientation}

_OPS = [("laplace", "V", "s"), ("laplace", "K", "s"), ("laplace", "Kp", "s"), ("laplace", "W", "p"), ("helmholtz", "V", "s"), ("helmholtz", "K", "s"),
        ("helmholtz", "W", "p"), ("modified", "V", "s"), ("modified", "Kp", "s"), ("modified", "W", "p"), ("maxwell", "E", "m"), ("maxwell", "M", "m"),
        ("sparse", "I", "s"), ("sparse", "I", "m"), ("sparse", "LB", "p")]


def shards(tier, seed=1):
    from vlib.pbt import rot

    q = tier == "quick"
    out = []
    if q:
        # every assembler code path in every run (default_scalar with a rotating kernel/family, the three hypersingular assemblers,
        # Maxwell E and M, the sparse identity (scalar and vector) and Laplace-Beltrami kernels); packed into few interpreters by the runner
        scal = [o for o in _OPS if o[1] in ("V", "K", "Kp")]
        ops = rot(scal, seed, 2) + [o for o in _OPS if o[1] not in ("V", "K", "Kp")]
        # orientation: the normal-dependent code paths
        oops = [rot([("laplace", "K", "s"), ("helmholtz", "K", "s"), ("laplace", "Kp", "s"), ("modified", "Kp", "s")], seed, 1)[0],
                rot([("helmholtz", "W", "p"), ("modified", "W", "p"), ("laplace", "W", "p")], seed, 1)[0],
                rot([("maxwell", "E", "m"), ("maxwell", "M", "m")], seed, 1)[0], ("sparse", "I", "m")]
    else:
        ops = _OPS
        oops = _OPS
    for fam, op, grp in ops:
        out.append({"check": "equivariance", "fam": fam, "op": op, "grp": grp, "examples": 12 if q else 60, "budget_s": 150 if q else 2400})
    for fam, op, grp in oops:
        out.append({"check": "orientation", "fam": fam, "op": op, "grp": grp, "examples": 8 if q else 30, "budget_s": 150 if q else 2400})
    return out


def strategy(spec):
    from hypothesis import strategies as st

    fam, op, grp = spec["fam"], spec["op"], spec["grp"]
    vec = grp == "m"
    kinds_t = {"s": ["DP0", "P1", "DP1"], "p": ["P1", "DP1"], "m": ["SNC"]}[grp]
    kinds_d = {"s": ["DP0", "P1", "DP1"], "p": ["P1", "DP1"], "m": ["RWG"]}[grp]
    if fam == "sparse" and vec:
        kinds_t = ["SNC", "RWG"]

    def kdraw(draw):
        if fam in ("laplace", "sparse"):
            return None
        if fam == "modified":
            return draw(st.sampled_from([[0.5, 0], [2.0, 0]]))
        return draw(st.sampled_from([[1.0, 0], [2.5, 1.0], [0.3, -0.2], [3.0, 0]]))

    def mesh(draw, junctions=True):
        if vec and junctions and draw(st.integers(0, 3)) == 0:
            # two boxes sharing a face: junction edges with three neighbours; segment spaces on two of the three domains are manifold
            m = draw(mg.mesh_descs("multitrace", max_elems=24, domains=False, max_edits=0, allow_refine=False, motion=False, relabel=False, cls="regular"))
            m["amp"] = 0.0
            return m
        if vec:
            closed = draw(st.booleans())
            m = draw(mg.mesh_descs("closed" if closed else "open", max_elems=24, domains=True, max_edits=2, allow_refine=False, motion=False,
                                   relabel=False, bases=None if closed else ["sheet", "strip", "fan"], cls="regular"))
        else:
            m = draw(mg.mesh_descs("any", max_elems=24, domains=True, max_edits=2, allow_refine=False, motion=False, relabel=False, cls="regular"))
        if m.get("domains", {}).get("mode") in ("scatter",):
            m["domains"]["mode"] = "patch"
        return m

    if spec["check"] == "equivariance":
        @st.composite
        def s(draw):
            tk = draw(st.sampled_from(["motion", "scale", "relabel", "relabel"]))
            if tk == "motion":
                tr = {"kind": tk, "quat": [draw(st.integers(-3, 3)) for _ in range(4)], "trans": [draw(st.sampled_from([0.0, 0.5, -3.0, 20.0])) for _ in range(3)]}
                if not any(tr["quat"]):
                    tr["quat"] = [1, 1, 0, 0]
            elif tk == "scale":
                tr = {"kind": tk, "s": draw(st.sampled_from([0.01, 0.1, 0.5, 2.0, 7.0, 100.0]))}
            else:
                tr = {"kind": tk, "seed": draw(st.integers(0, 10**6))}
            tsd, dsd = draw(sg.space_descs(kinds_t)), draw(sg.space_descs(kinds_d))
            m_ = mesh(draw)
            if m_["base"] == "multitrace":
                # edge spaces on two of the three domains (closed box or open shell with the interface): the junction edges then have
                # a neighbour outside the support; relabelling changes which neighbour has the smallest index
                pair = draw(st.sampled_from([[0, 2], [1, 2], [0, 1]]))
                tsd["sel"], dsd["sel"] = ["segments", pair], ["segments", pair if draw(st.booleans()) else draw(st.sampled_from([[0, 2], [1, 2], [0, 1]]))]
                if draw(st.integers(0, 3)) > 0:
                    tk = "relabel"
                    tr = {"kind": tk, "seed": draw(st.integers(0, 10**6))}
            if tk == "relabel":
                for sd in (tsd, dsd):
                    if sd.get("sel") and sd["sel"][0] == "support":
                        sd["sel"] = ["segments", [0]]  # element-index selectors do not follow an element permutation
            return {"mesh": m_, "transform": tr, "fam": fam, "op": op, "k": kdraw(draw), "test": tsd,
                    "trial": dsd, "reg": draw(st.integers(2, 6)), "sing": draw(st.integers(2, 5))}
        return s()

    @st.composite
    def o(draw):
        m = mesh(draw, junctions=False)  # whole-grid edge spaces need a manifold grid
        if not m.get("domains") or m["domains"].get("mode") == "all0" or m["domains"].get("n", 1) < 2:
            m["domains"] = {"mode": "patch", "n": draw(st.integers(2, 3)), "seed": draw(st.integers(0, 99)), "values": [0, 3, 7, 12]}
        if m["base"] == "tetra" and draw(st.integers(0, 3)) > 0:
            m["base"] = draw(st.sampled_from(["octa", "icosa", "prism"]))  # meshes with non-adjacent pairs (regular part of the assembly)
        # mostly one swapped domain out of several (mixed normal multipliers), sometimes all of them
        swap = draw(st.one_of(st.lists(st.integers(0, 3), min_size=1, max_size=1), st.lists(st.integers(0, 3), min_size=1, max_size=1),
                              st.lists(st.integers(0, 3), min_size=1, max_size=3)))
        # continuous spaces are assembled in colour order (element list != identity): prefer them on the trial side
        dks = kinds_d + [k_ for k_ in kinds_d if k_ == "P1"] * 2
        return {"mesh": m, "swap": swap, "fam": fam, "op": op, "k": kdraw(draw),
                "tkind": draw(st.sampled_from(kinds_t)), "dkind": draw(st.sampled_from(dks))}
    return o()


def required_labels(tier):
    base = ["equivariance", "motion", "relabel", "orientation"]
    return base if tier == "quick" else base + ["scale", "partial_reversal", "maxwell_E", "maxwell_M", "sparse_I", "laplace_W"]



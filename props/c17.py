"""C17 FMM-mode operators equal dense-mode ones given an exact far-field evaluator."""

import os

import numpy as np

from vlib.pbt import Violation
from vlib import meshgen as mg
from vlib import spacegen as sg
from vlib import opgen as og

LEVEL = "exploration"
RULE = (
    "With /verif/stubs/exafmm (exact blocked direct summation written from the kernel definitions) on sys.path: (grid or pair of "
    "grids, operator family/op, test/trial space descriptors incl. prefix and non-prefix segments and barycentric spaces, real/complex "
    "wavenumber and vector, global quadrature order 1..8, fmm.dense_evaluation on/off): op(assembler='fmm').weak_form() @ x == "
    "dense weak_form() @ x to rounding (for barycentric spaces the dense side is the congruence transform on the barycentric grid); FMM "
    "potentials == dense potentials; the stub itself == fmm.helpers.dense_interaction_evaluator. Thorough: the upstream reference vectors "
    "test/data/fmm_*.npy are reproduced within rtol 2e-3. Non-trivial = same-grid case (near-field correction and singular part both "
    "non-empty) or target != source grid; distinct by descriptor hash."
)
ORACLES = ["differential: FMM code path with exact far field vs dense assembler", "recorded reference vectors"]
ASSUMPTIONS = ["the real exafmm library's accuracy is out of scope (deliberately replaced)", "dense assembler judged by C01-C08"]

TOL = 2e-10


def _fail(sig, msg):
    raise Violation("C17/" + sig, msg)


def _set_global(order, dense_eval=False):
    import bempp_cl.api

    par = bempp_cl.api.GLOBAL_PARAMETERS
    old = (par.quadrature.regular, par.fmm.dense_evaluation)
    par.quadrature.regular = int(order)
    par.fmm.dense_evaluation = bool(dense_eval)
    return old


def _restore(old):
    import bempp_cl.api

    par = bempp_cl.api.GLOBAL_PARAMETERS
    par.quadrature.regular, par.fmm.dense_evaluation = old
    bempp_cl.api.clear_fmm_cache()


def _cls(g, kw):
    req = sg.requested_support(g, kw)
    if np.all(req):
        return "whole"
    return "prefix" if np.array_equal(np.flatnonzero(req), np.arange(req.sum())) else "nonprefix"


def check_boundary(desc):
    import bempp_cl.api

    if not bempp_cl.api.check_for_fmm():
        from vlib.pbt import HarnessError

        raise HarnessError("exafmm stand-in not importable")
    fam, op = desc["fam"], desc["op"]
    k = og.wavenumber(desc["k"]) if desc.get("k") is not None else None
    gd = mg.make_grid(desc["mesh"])
    gt = gd
    two = desc.get("mesh2") is not None
    if two:
        from props.c07 import _place

        gt, gd = _place({"mesh_test": desc["mesh2"], "mesh_trial": desc["mesh"], "sep": 0.6})
    sdt, sdd = desc["test"], desc["trial"]
    for g, sd in ((gt, sdt), (gd, sdd)):
        kw = sg.space_kwargs(g, sd)
        if sd["kind"] in sg.EDGE_KINDS and not sg.support_is_manifold(g, kw):
            return {"nontrivial": False, "labels": ["skipped"]}
        if len(sg.model_dof_entities(g, sd["kind"], kw)) == 0:
            return {"nontrivial": False, "labels": ["skipped"]}
    try:
        st, kwt = sg.build_space(gt, sdt)
        sd_, kwd = sg.build_space(gd, sdd)
    except Exception as exc:  # noqa: BLE001
        if "connected only by a vertex" in str(exc):
            return {"nontrivial": False, "labels": ["skipped"]}
        raise
    old = _set_global(desc["order"], desc.get("dense_eval", False))
    try:
        rng = np.random.default_rng(desc["seed"])
        x = rng.standard_normal(sd_.global_dof_count) + (1j * rng.standard_normal(sd_.global_dof_count) if desc.get("complex") else 0)
        bary = st.requires_dof_transformation or sd_.requires_dof_transformation or st.is_barycentric or sd_.is_barycentric
        A = og.boundary_operator(fam, op, sd_, sd_, st, k, assembler="fmm")
        try:
            y = A.weak_form() @ x
        except ValueError as exc:
            if "valid barycentric representation" in str(exc):
                # documented clean rejection: DP1 has no barycentric representation to pair with a dual-grid space
                return {"nontrivial": False, "labels": ["clean_rejection_no_barycentric_representation"]}
            raise
        if not bary:
            D = og.dense(og.boundary_operator(fam, op, sd_, sd_, st, k, assembler="dense"))
        else:
            # congruence on the barycentric grid with element-wise spaces of the same shapeset
            from bempp_cl.api.space.space import return_compatible_representation

            bt, bd = return_compatible_representation(st, sd_)
            bg = bt.grid

            def loc(sp):
                shp = sp.shapeset.identifier
                if shp == "p0_discontinuous":
                    return bempp_cl.api.function_space(bg, "DP", 0)
                if shp == "p1_discontinuous":
                    return bempp_cl.api.function_space(bg, "DP", 1)
                kind = "SNC" if sp.identifier.startswith("snc0") else "RWG"
                return bempp_cl.api.function_space(bg, kind, 0, include_boundary_dofs=True).localised_space

            lt, ld = loc(bt), loc(bd)
            Aloc = og.dense(og.raw_like(fam, op, ld, ld, lt, k))
            from props.c04 import harness_T

            def T(sp):
                from scipy.sparse import coo_matrix

                ns = sp.number_of_shape_functions
                l2g = np.asarray(sp.local2global).astype(int)
                mult = np.asarray(sp.local_multipliers).astype(float)
                rows, cols, vals = [], [], []
                for e in np.flatnonzero(np.asarray(sp.support)):
                    for i in range(ns):
                        rows.append(ns * e + i)
                        cols.append(l2g[e, i])
                        vals.append(mult[e, i])
                M = coo_matrix((vals, (rows, cols)), shape=(ns * sp.grid.number_of_elements, sp.grid_dof_count)).tocsr()
                return M @ sp.dof_transformation

            D = np.asarray(T(bt).T @ Aloc @ T(bd))
        ref = D @ x
        scale = max(float(np.max(np.abs(D))), og.entry_floor(gd, fam, op)) * max(1.0, float(np.max(np.abs(x))))
        err = float(np.max(np.abs(y - ref))) / scale
        cls = f"{_cls(gt, kwt)}-{_cls(gd, kwd)}" + ("/bary" if bary else "") + ("/two_grids" if two else "")
        if err > TOL:
            _fail(f"boundary/{fam}_{op}/{sdt['kind']}x{sdd['kind']}/{cls}", f"FMM-mode product differs from the dense one by {err:.2e} "
                  f"(k={k}, global order {desc['order']}, dense_evaluation={desc.get('dense_eval', False)})")
    finally:
        _restore(old)
    labels = ["boundary", f"{fam}_{op}", "two_grids" if two else "same_grid"]
    if bary:
        labels.append("barycentric")
    if "nonprefix" in cls:
        labels.append("non_prefix_support")
    if desc.get("dense_eval"):
        labels.append("dense_evaluation")
    if k is not None and np.imag(k) != 0:
        labels.append("complex_k")
    return {"nontrivial": True, "labels": labels, "measured": {"rel_err": err}}


def check_potential(desc):
    import bempp_cl.api

    fam, op = desc["fam"], desc["op"]
    k = og.wavenumber(desc["k"]) if desc.get("k") is not None else None
    g = mg.make_grid(desc["mesh"])
    sd = desc["space"]
    kw = sg.space_kwargs(g, sd)
    if sd["kind"] in sg.EDGE_KINDS and not sg.support_is_manifold(g, kw):
        return {"nontrivial": False, "labels": ["skipped"]}
    if len(sg.model_dof_entities(g, sd["kind"], kw)) == 0:
        return {"nontrivial": False, "labels": ["skipped"]}
    space, _ = sg.build_space(g, sd)
    old = _set_global(desc["order"], desc.get("dense_eval", False))
    try:
        V = np.asarray(g.vertices)
        c = V.mean(axis=1)
        R = np.max(np.linalg.norm(V - c[:, None], axis=0))
        rng = np.random.default_rng(desc["seed"])
        dirs = rng.standard_normal((3, 5))
        X = np.asfortranarray(c[:, None] + dirs / np.linalg.norm(dirs, axis=0) * R * rng.uniform(1.8, 4, 5))
        coef = rng.standard_normal(space.global_dof_count) + (1j * rng.standard_normal(space.global_dof_count) if desc.get("complex") else 0)
        gf = bempp_cl.api.GridFunction(space, coefficients=coef)
        pf = og.potential_operator(fam, op, space, X, k, assembler="fmm").evaluate(gf)
        pd = og.potential_operator(fam, op, space, X, k, assembler="dense").evaluate(gf)
        err = og.relerr(pf, pd)
        cls = _cls(g, kw)
        if pf.shape != pd.shape or err > 1e-10:
            _fail(f"potential/{fam}_{op}/{sd['kind']}/{cls}", f"FMM-mode potential differs from the dense one by {err:.2e} (k={k}, order {desc['order']})")
    finally:
        _restore(old)
    labels = ["potential", f"{fam}_{op}"]
    if cls == "nonprefix":
        labels.append("non_prefix_support")
    return {"nontrivial": True, "labels": labels, "measured": {"rel_err": err}}


def check_stub(desc):
    """The stand-in agrees with the library's own dense_interaction_evaluator (attribution of disagreements)."""
    from bempp_cl.api.fmm.helpers import dense_interaction_evaluator
    import exafmm.laplace
    import exafmm.helmholtz
    import exafmm.modified_helmholtz

    rng = np.random.default_rng(desc["seed"])
    ns, nt = 17, 11
    S = rng.standard_normal((ns, 3))
    T = rng.standard_normal((nt, 3)) + np.array([desc["shift"], 0, 0])
    if desc["same"]:
        T = S.copy()
    mode = desc["mode"]
    q = rng.standard_normal(len(S)) + (1j * rng.standard_normal(len(S)) if mode == "helmholtz" else 0)
    if mode == "laplace":
        m, fmm, kp = exafmm.laplace, exafmm.laplace.LaplaceFmm(5, 400), np.array([], dtype="float64")
    elif mode == "helmholtz":
        kk = complex(*desc["k"])
        m, fmm, kp = exafmm.helmholtz, exafmm.helmholtz.HelmholtzFmm(5, 400, kk), np.array([kk.real, kk.imag])
    else:
        m, fmm, kp = exafmm.modified_helmholtz, exafmm.modified_helmholtz.ModifiedHelmholtzFmm(5, 400, abs(desc["k"][0])), np.array([abs(desc["k"][0])])
    tree = m.setup(m.init_sources(S, np.zeros(len(S))), m.init_targets(T), fmm)
    m.update_charges(tree, q)
    got = m.evaluate(tree, fmm)
    want = dense_interaction_evaluator(T, S, q, mode, kp)
    err = og.relerr(got, np.asarray(want).reshape(got.shape))
    if err > 1e-11:
        _fail(f"stub_vs_library_dense/{mode}", f"the exact-summation stand-in and fmm.helpers.dense_interaction_evaluator differ by {err:.2e}")
    return {"nontrivial": True, "labels": ["stub", mode]}


def check_reference(desc):
    """Upstream reference vectors (test/data/fmm_*.npy), as in test/validation/fmm/test_fmm.py."""
    import bempp_cl
    import bempp_cl.api
    from bempp_cl.api.operators import boundary as B, potential as P

    data = os.path.join(os.path.dirname(os.path.dirname(os.path.abspath(bempp_cl.__file__))), "test", "data")

    def npy(n):
        return np.load(os.path.join(data, n + ".npy"))

    old = _set_global(4, False)
    try:
        what = desc["what"]
        if what == "two_grids":
            g1 = bempp_cl.api.import_grid(os.path.join(data, "fmm_grid1.msh"))
            g2 = bempp_cl.api.import_grid(os.path.join(data, "fmm_grid2.msh"))
            s1 = bempp_cl.api.function_space(g1, "P", 1)
            s2 = bempp_cl.api.function_space(g2, "P", 1)
            vec = npy("fmm_two_mesh_vec") if os.path.exists(os.path.join(data, "fmm_two_mesh_vec.npy")) else None
            if vec is None:
                return {"nontrivial": False, "labels": ["reference_data_missing"]}
            items = [("fmm_two_mesh_laplace_single", B.laplace.single_layer), ("fmm_two_mesh_laplace_hyper", B.laplace.hypersingular)]
            for fn, opf in items:
                if not os.path.exists(os.path.join(data, fn + ".npy")):
                    continue
                got = opf(s1, s2, s2, assembler="fmm").weak_form() @ vec
                ref = npy(fn)
                if not np.allclose(ref, got, rtol=2e-3, atol=2e-3 * np.max(np.abs(ref)) * 1e-3):
                    _fail(f"reference/{fn}", f"max rel deviation {np.max(np.abs(got - ref) / (np.abs(ref) + 1e-300)):.2e} from the recorded vector")
            return {"nontrivial": True, "labels": ["reference", what]}
        g = bempp_cl.api.import_grid(os.path.join(data, "fmm_grid.msh"))
        wn = 1.5
        if what in ("laplace", "helmholtz", "modified"):
            sp = bempp_cl.api.function_space(g, "P", 1)
            vec = npy("fmm_p1_vec")
            mod = {"laplace": B.laplace, "helmholtz": B.helmholtz, "modified": B.modified_helmholtz}[what]
            pre = {"laplace": "fmm_laplace", "helmholtz": "fmm_helmholtz", "modified": "fmm_modified_helmholtz"}[what]
            for suffix, name in (("single", "single_layer"), ("double", "double_layer"), ("adjoint", "adjoint_double_layer"), ("hyper", "hypersingular")):
                args = (sp, sp, sp) if what == "laplace" else (sp, sp, sp, wn)
                got = getattr(mod, name)(*args, assembler="fmm").weak_form() @ vec
                ref = npy(f"{pre}_{suffix}")
                if not np.allclose(ref, got, rtol=2e-3, atol=1e-6 * np.max(np.abs(ref))):
                    _fail(f"reference/{pre}_{suffix}", f"deviation from the recorded vector: {np.max(np.abs(got - ref)) / np.max(np.abs(ref)):.2e} of max")
            pts = npy("fmm_potential_points")
            gf = bempp_cl.api.GridFunction(sp, coefficients=vec)
            pm = {"laplace": P.laplace, "helmholtz": P.helmholtz, "modified": P.modified_helmholtz}[what]
            pp = {"laplace": "fmm_laplace_potential", "helmholtz": "fmm_helmholtz_potential", "modified": "fmm_modified_potential_helmholtz"}[what]
            for suffix, name in (("single", "single_layer"), ("double", "double_layer")):
                args = (sp, pts) if what == "laplace" else (sp, pts, wn)
                got = getattr(pm, name)(*args, assembler="fmm").evaluate(gf)
                ref = npy(f"{pp}_{suffix}")
                if not np.allclose(ref, got, rtol=2e-3, atol=1e-6 * np.max(np.abs(ref))):
                    _fail(f"reference/{pp}_{suffix}", f"deviation from the recorded potential: {np.max(np.abs(got - ref)) / np.max(np.abs(ref)):.2e} of max")
        else:
            rwg = bempp_cl.api.function_space(g, "RWG", 0)
            snc = bempp_cl.api.function_space(g, "SNC", 0)
            vec = npy("fmm_rwg_vec")
            for fn, opf in (("fmm_maxwell_electric", B.maxwell.electric_field), ("fmm_maxwell_magnetic", B.maxwell.magnetic_field)):
                got = opf(rwg, rwg, snc, wn, assembler="fmm").weak_form() @ vec
                ref = npy(fn)
                if not np.allclose(ref, got, rtol=2e-3, atol=1e-6 * np.max(np.abs(ref))):
                    _fail(f"reference/{fn}", f"deviation from the recorded vector: {np.max(np.abs(got - ref)) / np.max(np.abs(ref)):.2e} of max")
            pts = npy("fmm_potential_points")
            gf = bempp_cl.api.GridFunction(rwg, coefficients=vec)
            for fn, opf in (("fmm_maxwell_potential_electric", P.maxwell.electric_field), ("fmm_maxwell_potential_magnetic", P.maxwell.magnetic_field)):
                got = opf(rwg, pts, wn, assembler="fmm").evaluate(gf)
                ref = npy(fn)
                if not np.allclose(ref, got, rtol=2e-3, atol=1e-6 * np.max(np.abs(ref))):
                    _fail(f"reference/{fn}", f"deviation from the recorded potential: {np.max(np.abs(got - ref)) / np.max(np.abs(ref)):.2e} of max")
    finally:
        _restore(old)
    return {"nontrivial": True, "labels": ["reference", desc["what"]]}


CHECKS = {"boundary": check_boundary, "potential": check_potential, "stub": check_stub, "reference": check_reference}

_BOPS = [("laplace", "V"), ("laplace", "K"), ("laplace", "Kp"), ("laplace", "W"), ("helmholtz", "V"), ("helmholtz", "K"), ("helmholtz", "Kp"),
         ("helmholtz", "W"), ("modified", "V"), ("modified", "K"), ("modified", "W"), ("maxwell", "E"), ("maxwell", "M")]


def shards(tier, seed=1):
    from vlib.pbt import rot

    q = tier == "quick"
    n = 1 if q else 8
    out = [{"check": "stub", "examples": 40, "budget_s": 60}]
    if q:
        # every FMM evaluator in every run: single / double / adjoint double layer with rotating families (so that all three near-field
        # kernels of fmm/helpers.py are visited), the three hypersingular evaluators, Maxwell E and M; potentials likewise
        fams = ["laplace", "helmholtz", "modified"]
        bops = [(fams[(seed + i) % 3], op) for i, op in enumerate(("V", "K", "Kp"))]
        bops = [b if b != ("modified", "Kp") else ("helmholtz", "Kp") for b in bops]
        bops += [("laplace", "W"), ("helmholtz", "W"), ("modified", "W"), ("maxwell", "E"), ("maxwell", "M")]
        pots = [(fams[(seed + 1) % 3], "V"), (fams[(seed + 2) % 3] if fams[(seed + 2) % 3] != "modified" else "helmholtz", "K"), ("maxwell", "E"), ("maxwell", "M")]
    else:
        bops = _BOPS
        pots = [("laplace", "V"), ("helmholtz", "K"), ("maxwell", "E"), ("laplace", "K"), ("helmholtz", "V"), ("modified", "V"), ("maxwell", "M")]
    for fam, op in bops:
        out.append({"check": "boundary", "fam": fam, "op": op, "examples": (8 if fam != "maxwell" else 6) if q else 56, "budget_s": 150 if q else 2400})
    for fam, op in pots:
        out.append({"check": "potential", "fam": fam, "op": op, "examples": 8 if q else 64, "budget_s": 120 if q else 1920})
    if not q:
        for what in ("laplace", "helmholtz", "modified", "maxwell", "two_grids"):
            out.append({"check": "reference", "what": what, "budget_s": 3000, "threads": 2})
    return out


def cases(spec):
    if spec["check"] == "reference":
        return [{"what": spec["what"]}]
    return None


def strategy(spec):
    from hypothesis import strategies as st

    c = spec["check"]
    if c == "stub":
        return st.fixed_dictionaries({"mode": st.sampled_from(["laplace", "helmholtz", "modified_helmholtz"]), "seed": st.integers(0, 999),
                                      "same": st.booleans(), "shift": st.sampled_from([0.0, 3.0]),
                                      "k": st.sampled_from([[1.0, 0.0], [2.0, 0.5], [0.3, -0.1]])})
    fam, op = spec["fam"], spec["op"]
    vec = fam == "maxwell"

    def kdraw(draw):
        if fam == "laplace":
            return None
        if fam == "modified":
            return draw(st.sampled_from([[0.5, 0], [2.0, 0]]))
        return draw(st.sampled_from([[1.0, 0], [2.5, 1.0], [0.3, -0.2], [3.0, 0]]))

    def meshes(draw, big=20):
        if vec:
            closed = draw(st.booleans())
            m = draw(mg.mesh_descs("closed" if closed else "open", max_elems=big, domains=True, max_edits=2, allow_refine=False,
                                   bases=None if closed else ["sheet", "strip", "fan"]))
        else:
            m = draw(mg.mesh_descs("any", max_elems=big, domains=True, max_edits=2, allow_refine=False))
        if m.get("domains", {}).get("mode") == "scatter":
            m["domains"]["mode"] = "patch"
        return m

    if c == "boundary":
        if vec:
            tk, dk = ["SNC", "RBC"], ["RWG", "BC"]
        elif op == "W":
            tk = dk = ["P1", "DP1"]
        else:
            tk = dk = ["DP0", "P1", "DP1", "DUAL0", "DUAL1"]

        @st.composite
        def s(draw):
            mesh = meshes(draw)
            t = draw(sg.space_descs(tk))
            d = draw(sg.space_descs(dk))
            for sd in (t, d):
                if sd["kind"] in sg.BARY_KINDS:
                    sd.pop("sel", None)  # barycentric spaces: whole grid (segments of BC are the recorded defect D16)
                    sd.pop("ibd", None)
                    sd.pop("trunc", None)
            if any(sd["kind"] in ("BC", "RBC") for sd in (t, d)):
                mesh = draw(mg.mesh_descs("closed", max_elems=14, max_edits=1, allow_refine=False, bases=["tetra", "octa", "cube", "prism"]))
            elif any(sd["kind"] in ("DUAL0", "DUAL1") for sd in (t, d)):
                mesh["max_elems"] = 14
            dd = {"mesh": mesh, "fam": fam, "op": op, "k": kdraw(draw), "test": t, "trial": d, "order": draw(st.integers(1, 6)),
                  "seed": draw(st.integers(0, 999)), "complex": draw(st.booleans()), "dense_eval": draw(st.integers(0, 3)) == 0}
            if not vec and draw(st.integers(0, 3)) == 0 and not any(sd["kind"] in sg.BARY_KINDS for sd in (t, d)):
                dd["mesh2"] = meshes(draw, 14)
            return dd
        return s()

    @st.composite
    def p(draw):
        return {"mesh": meshes(draw, 24), "fam": fam, "op": op, "k": kdraw(draw), "space": draw(sg.space_descs(["RWG"] if vec else ["DP0", "P1", "DP1"])),
                "order": draw(st.integers(1, 6)), "seed": draw(st.integers(0, 999)), "complex": draw(st.booleans()),
                "dense_eval": draw(st.integers(0, 3)) == 0}
    return p()


def required_labels(tier):
    base = ["boundary", "potential", "stub", "same_grid", "non_prefix_support"]
    return base if tier == "quick" else base + ["two_grids", "barycentric", "complex_k", "dense_evaluation", "laplace_W", "helmholtz_K", "maxwell_E", "maxwell_M"]



"""C05 Helmholtz-family operators are consistent with Laplace and with each other."""

import numpy as np

from vlib.pbt import Violation
from vlib import meshgen as mg
from vlib import spacegen as sg
from vlib import opgen as og

LEVEL = "exploration"
RULE = (
    "(mesh closed/open, scalar space pair with segments, k = rho e^{i theta}/D with rho in (0,1] and theta on and off the axes, omega>0, "
    "quadrature orders): (a) entrywise small-k bounds |H_V - L_V - ik/(4pi) m m^T| <= |k|^2 D/(4pi) m_a m_a^T and |H_K - L_K|, "
    "|H_K' - L_K'| <= |k|^2/(4pi) m_a m_a^T (m exact integrals, m_a discrete absolute sums incl. negative weights); (b) helmholtz(i w) == "
    "modified_helmholtz(w) for boundary and potential operators and helmholtz(eps + i w) -> same as eps -> 0; (c) A(-conj k) == conj A(k); "
    "(d) V, W complex-symmetric and K'(a,b) == K(b,a)^T under a singular-order ladder. Non-trivial = k off the real axis or |k|D > 0.1; "
    "distinct by descriptor hash."
)
ORACLES = ["analytic entrywise inequality", "differential between operator families", "conjugation symmetry", "transpose symmetry under convergence ladder"]
ASSUMPTIONS = ["Laplace matrices are the reference for (a); they are judged by C01/C07"]


def _fail(sig, msg):
    raise Violation("C05/" + sig, msg)


def _setup(desc):
    g = mg.make_grid(desc["mesh"])
    for sd in (desc["test"], desc["trial"]):
        kw = sg.space_kwargs(g, sd)
        if len(sg.model_dof_entities(g, sd["kind"], kw)) == 0:
            return None
    st, _ = sg.build_space(g, desc["test"])
    sd_, _ = sg.build_space(g, desc["trial"])
    D = float(np.linalg.norm(g.bounding_box[:, 1] - g.bounding_box[:, 0]))
    return g, st, sd_, D


def _moments(space, order):
    """m_s = int phi (exact), m_a = sum |w| |phi| J with the library's regular rule."""
    from bempp_cl.api.integration.triangle_gauss import rule

    lp, w = rule(order)
    g = space.grid
    V, E = np.asarray(g.vertices), np.asarray(g.elements).astype(int)
    ms = np.zeros(space.global_dof_count)
    ma = np.zeros(space.global_dof_count)
    l2g = np.asarray(space.local2global).astype(int)
    from vlib import refnum

    lpe, we = refnum.tri_rule(2)
    for e in np.flatnonzero(np.asarray(space.support)):
        ie = np.linalg.norm(np.cross(V[:, E[1, e]] - V[:, E[0, e]], V[:, E[2, e]] - V[:, E[0, e]]))
        b = sg.ref_basis(space, int(e), lp)[0]
        be = sg.ref_basis(space, int(e), lpe)[0]
        for i in range(b.shape[0]):
            ms[l2g[e, i]] += ie * np.sum(we * be[i])
            ma[l2g[e, i]] += ie * np.sum(np.abs(w) * np.abs(b[i]))
    return ms, ma


def check_smallk(desc):
    s = _setup(desc)
    if s is None:
        return {"nontrivial": False, "labels": ["skipped"]}
    g, st, sd_, D = s
    rho, theta = desc["rho"], desc["theta"]
    k = rho * np.exp(1j * theta) / D
    if abs(k.imag) < 1e-15 * abs(k):
        k = complex(k.real, 0.0)
    if abs(k.real) < 1e-15 * abs(k):
        k = complex(0.0, k.imag)
    par = og.make_params(desc["orders"][0], desc["orders"][1])
    op = desc["op"]
    H = og.dense(og.boundary_operator("helmholtz", op, sd_, sd_, st, k if k.imag != 0 else k.real, parameters=par))
    L = og.dense(og.boundary_operator("laplace", op, sd_, sd_, st, parameters=par))
    mst, mat = _moments(st, desc["orders"][0])
    msd, mad = _moments(sd_, desc["orders"][0])
    # Duffy rules have positive weights and integrate |phi||psi| of P0/P1 functions exactly for order >= 3
    if op == "V":
        diff = H - L - (1j * k / (4 * np.pi)) * np.outer(mst, msd)
        bound = abs(k) ** 2 * D / (4 * np.pi) * np.outer(mat, mad)
    else:
        diff = H - L
        bound = abs(k) ** 2 / (4 * np.pi) * np.outer(mat, mad)
    ratio = np.max(np.abs(diff) / (bound * (1 + 1e-9) + 1e-300 + 1e-13 * np.max(np.abs(L))))
    if ratio > 1.0:
        i, j = np.unravel_index(np.argmax(np.abs(diff) / (bound + 1e-300)), diff.shape)
        _fail(f"smallk/{op}", f"|H - L{' - ik/4pi m m^T' if op == 'V' else ''}| = {abs(diff[i, j]):.3e} exceeds the bound {bound[i, j]:.3e} at ({i},{j}); k={k}, kD={rho}")
    labels = ["smallk", op]
    if k.imag != 0 and k.real != 0:
        labels.append("complex_k")
    elif k.real == 0:
        labels.append("imag_k")
    else:
        labels.append("real_k")
    return {"nontrivial": rho > 0.1 or k.imag != 0, "labels": labels, "measured": {"ratio": float(ratio)}}


def check_modified(desc):
    """helmholtz(i w) == modified(w) (boundary + potential), limit eps -> 0, conjugation symmetry."""
    import bempp_cl.api

    s = _setup(desc)
    if s is None:
        return {"nontrivial": False, "labels": ["skipped"]}
    g, st, sd_, D = s
    op = desc["op"]
    om = desc["omega"] / D
    par = og.make_params(desc["orders"][0], desc["orders"][1])
    labels = ["modified", op]
    if op in ("V", "K", "Kp", "W"):
        if op == "W" and (st.shapeset.identifier != "p1_discontinuous" or sd_.shapeset.identifier != "p1_discontinuous"):
            return {"nontrivial": False, "labels": ["skipped"]}
        M = og.dense(og.boundary_operator("modified", op, sd_, sd_, st, om, parameters=par))
        Hi = og.dense(og.boundary_operator("helmholtz", op, sd_, sd_, st, 1j * om, parameters=par))
        if og.relerr(Hi, M) > 1e-12:
            _fail(f"imag_wavenumber/boundary_{op}", f"helmholtz(i w) differs from modified_helmholtz(w) by {og.relerr(Hi, M):.2e}")
        prev = None
        for eps in (1e-4, 1e-7):
            He = og.dense(og.boundary_operator("helmholtz", op, sd_, sd_, st, eps / D + 1j * om, parameters=par))
            e = og.relerr(He, M)
            if e > 50 * eps * (1 + desc["omega"]):
                _fail(f"limit/boundary_{op}", f"helmholtz(eps + i w) differs from modified_helmholtz(w) by {e:.2e} at eps D = {eps:g}")
            prev = e
        # conjugation symmetry
        kk = og.wavenumber(desc["k"]) / D
        A = og.dense(og.boundary_operator("helmholtz", op, sd_, sd_, st, kk, parameters=par))
        B = og.dense(og.boundary_operator("helmholtz", op, sd_, sd_, st, -np.conj(kk) if np.imag(kk) != 0 else -kk, parameters=par))
        if og.relerr(B, np.conj(A)) > 1e-12:
            _fail(f"conjugation/boundary_{op}", f"A(-conj k) differs from conj A(k) by {og.relerr(B, np.conj(A)):.2e}, k={kk}")
        labels.append("boundary")
    else:
        pop = op[1:]  # "PV" / "PK"
        V = np.asarray(g.vertices)
        c = V.mean(axis=1)
        R = np.max(np.linalg.norm(V - c[:, None], axis=0))
        X = np.asfortranarray(c[:, None] + R * np.array([[2.0, 0, 0.3], [0, -3.0, 1.0], [1.5, 1.5, -2.0]]).T)
        rng = np.random.default_rng(desc.get("cseed", 0))
        coef = rng.standard_normal(sd_.global_dof_count) + (1j * rng.standard_normal(sd_.global_dof_count) if desc.get("complex") else 0)
        gf = bempp_cl.api.GridFunction(sd_, coefficients=coef)
        pm = og.potential_operator("modified", pop, sd_, X, om, parameters=par).evaluate(gf)
        try:
            ph = og.potential_operator("helmholtz", pop, sd_, X, 1j * om, parameters=par).evaluate(gf)
        except Exception as exc:  # noqa: BLE001
            _fail(f"imag_wavenumber/potential_{pop}", f"potential.helmholtz with wavenumber i w raised {type(exc).__name__}: {exc}")
        if og.relerr(ph, pm) > 1e-12:
            _fail(f"imag_wavenumber/potential_{pop}", f"potential helmholtz(i w) differs from modified_helmholtz(w) by {og.relerr(ph, pm):.2e}")
        for eps in (1e-4, 1e-7):
            pe = og.potential_operator("helmholtz", pop, sd_, X, eps / D + 1j * om, parameters=par).evaluate(gf)
            e = og.relerr(pe, pm)
            if e > 50 * eps * (1 + desc["omega"]) * 10:
                _fail(f"limit/potential_{pop}", f"potential helmholtz(eps + i w) differs from modified by {e:.2e} at eps D = {eps:g}")
        kk = og.wavenumber(desc["k"]) / D
        gr = bempp_cl.api.GridFunction(sd_, coefficients=np.real(coef))
        a = og.potential_operator("helmholtz", pop, sd_, X, kk, parameters=par).evaluate(gr)
        b = og.potential_operator("helmholtz", pop, sd_, X, -np.conj(kk) if np.imag(kk) != 0 else -kk, parameters=par).evaluate(gr)
        if og.relerr(b, np.conj(a)) > 1e-12:
            _fail(f"conjugation/potential_{pop}", f"P(-conj k) differs from conj P(k) by {og.relerr(b, np.conj(a)):.2e}")
        labels.append("potential")
    return {"nontrivial": True, "labels": labels}


def check_symmetry(desc):
    s = _setup(desc)
    if s is None:
        return {"nontrivial": False, "labels": ["skipped"]}
    g, st, sd_, D = s
    op = desc["op"]
    k = og.wavenumber(desc["k"]) / D
    errs = []
    ladder = desc.get("ladder", [[4, 3], [5, 6], [6, 9]])
    fam = desc.get("fam", "helmholtz")
    kk = k if fam != "laplace" else None
    if fam == "modified":
        kk = abs(np.real(k)) + 0.1 / D
    for reg, sing in ladder:
        par = og.make_params(reg, sing)
        if op in ("V", "W"):
            A = og.dense(og.boundary_operator(fam, op, st, st, st, kk, parameters=par))
            errs.append(og.relerr(A, A.T))
        else:
            Kp = og.dense(og.boundary_operator(fam, "Kp", sd_, sd_, st, kk, parameters=par))
            K = og.dense(og.boundary_operator(fam, "K", st, st, sd_, kk, parameters=par))
            errs.append(og.relerr(Kp, K.T))
    if errs[-1] > 1e-6 and errs[-1] > 0.05 * errs[0]:
        _fail(f"symmetry/{fam}_{op}", f"asymmetry {['%.1e' % e for e in errs]} on ladder {ladder} does not vanish with the singular order")
    return {"nontrivial": True, "labels": ["symmetry", op, fam], "measured": {"errors": errs}}


CHECKS = {"smallk": check_smallk, "modified": check_modified, "symmetry": check_symmetry}


def shards(tier, seed=1):
    from vlib.pbt import rot

    q = tier == "quick"
    out = []
    shp = ((["DP0"], ["P1", "DP1"]), (["P1", "DP1"], ["DP0"]))
    if q:
        # every kernel / dispatch path in every run, the shape-set pairing rotates with the seed (shards are packed by the runner)
        sk = [(op, shp[(seed + i) % 2]) for i, op in enumerate(("V", "K", "Kp"))]
    else:
        sk = [(op, shapes) for op in ("V", "K", "Kp") for shapes in shp]
    for op, shapes in sk:
        out.append({"check": "smallk", "op": op, "tk": shapes[0], "dk": shapes[1], "examples": 10 if q else 96, "budget_s": 120 if q else 1920})
    pairs = [(["DP0"], ["DP0"]), (["P1"], ["DP0"]), (["DP0"], ["P1"]), (["P1"], ["P1"]), (["DP1"], ["P1"])]
    for i, op in enumerate(["V", "PV", "K", "PK", "Kp", "W"]):
        sp = {"check": "modified", "op": op, "examples": 12 if q else 64, "budget_s": 120 if q else 1920}
        if q:
            tk, dk = pairs[(seed + i) % len(pairs)] if op != "W" else (["P1"], [["P1"], ["DP1"]][seed % 2])
            sp["tk"], sp["dk"] = tk, dk
        out.append(sp)
    sy = [("helmholtz", "V"), ("helmholtz", "W"), ("modified", "W"), ("laplace", "KKp")]
    for fam, op in ([("helmholtz", "KKp")] + rot(sy, seed, 1) if q else [("helmholtz", "KKp")] + sy):
        out.append({"check": "symmetry", "fam": fam, "op": op, "examples": 4 if q else 32, "budget_s": 150 if q else 1920})
    return out


def strategy(spec):
    from hypothesis import strategies as st

    c = spec["check"]
    kk = st.sampled_from([[1.0, 0], [2.5, 1.0], [0.3, 0.2], [0.5, -0.4], [3.0, 0], [1.3, 0.4]])

    @st.composite
    def s(draw):
        mesh = draw(mg.mesh_descs("any", max_elems=24, domains=True, max_edits=2, allow_refine=False,
                                  cls="regular" if c == "symmetry" else None))
        d = {"mesh": mesh, "op": spec["op"]}
        if c == "smallk":
            d["test"] = draw(sg.space_descs(spec["tk"]))
            d["trial"] = draw(sg.space_descs(spec["dk"]))
            d["rho"] = draw(st.sampled_from([1.0, 0.7, 0.3, 0.05, 1e-3]))
            d["theta"] = draw(st.sampled_from([0.0, np.pi / 2, np.pi, -np.pi / 2, 0.4, 2.0, 3.5, 5.5, np.pi / 4]))
            d["orders"] = [draw(st.integers(2, 6)), draw(st.integers(3, 6))]
        elif c == "modified":
            p1 = spec["op"] == "W"
            # quick shards fix one shape-set pair (each pair is a separate set of Numba specialisations for the Helmholtz and the modified
            # Helmholtz operator: a shard that meets all nine spends its budget compiling); the thorough tier draws all of them
            d["test"] = draw(sg.space_descs(spec.get("tk") or (["P1", "DP1"] if p1 else ["DP0", "P1", "DP1"])))
            d["trial"] = draw(sg.space_descs(spec.get("dk") or (["P1", "DP1"] if p1 else ["DP0", "P1", "DP1"])))
            d["omega"] = draw(st.sampled_from([0.3, 1.0, 4.0]))
            d["k"] = draw(kk)
            d["orders"] = [draw(st.integers(1, 6)), draw(st.integers(2, 5))]
            d["cseed"] = draw(st.integers(0, 99))
            d["complex"] = draw(st.booleans())
        else:
            sd = draw(sg.space_descs(["P1", "DP1"] if spec["op"] == "W" else ["DP0", "P1", "DP1"]))
            d["test"] = sd
            d["trial"] = draw(sg.space_descs(["DP0", "P1", "DP1"])) if spec["op"] == "KKp" else sd
            d["k"] = draw(kk)
            d["fam"] = spec["fam"]
        return d
    return s()


def required_labels(tier):
    return ["smallk", "modified", "symmetry"] if tier == "quick" else [
        "smallk", "modified", "symmetry", "complex_k", "imag_k", "real_k", "boundary", "potential", "V", "K", "Kp", "W"]



"""C10 Barycentric and dual-grid spaces represent the functions they claim to."""

import numpy as np

from vlib.pbt import Violation
from vlib import meshgen as mg
from vlib import spacegen as sg
from vlib import refnum

LEVEL = "exploration"
RULE = (
    "(non-uniform mesh, space, coefficient seed): (a) pointwise agreement of sum c_i phi_i evaluated on the coarse element "
    "(located geometrically) with the barycentric representation on every barycentric sub-triangle for DP0/P1/RWG/SNC incl. segments; "
    "(b) nodal values of every DUAL1/DUAL0 basis function at barycentric vertices (1 at barycentre/vertex, 1/2 at edge midpoints, "
    "1/n at n-valent vertices, 0 elsewhere); (c) mixed mass matrices identity(primal|dual, ., dual|primal) against reference "
    "quadrature of the product of reference bases on the barycentric grid. Non-trivial = mesh with edits or displacement and a "
    "generic coefficient vector; distinct by descriptor hash."
)
ORACLES = [
    "coarse reference basis evaluated at geometrically located parent coordinates",
    "documented nodal values of dual functions",
    "collapsed Gauss-Legendre quadrature of products of reference bases",
]
ASSUMPTIONS = ["barycentric grid geometry itself is validated by C11"]


def _fail(sig, msg):
    raise Violation("C10/" + sig, msg)


def _setup(desc):
    import bempp_cl.api

    g = mg.make_grid(desc["mesh"])
    return g


def check_pointwise(desc):
    """(a): function in the space == function in its barycentric representation, pointwise."""
    import bempp_cl.api

    g = _setup(desc)
    sd = desc["space"]
    kind = sd["kind"]
    kw = sg.space_kwargs(g, sd)
    if kind in sg.EDGE_KINDS and not sg.support_is_manifold(g, kw):
        return {"nontrivial": False, "labels": ["skipped_nonmanifold_support"]}
    if len(sg.model_dof_entities(g, kind, kw)) == 0:
        return {"nontrivial": False, "labels": ["empty_selection"]}
    space, _ = sg.build_space(g, sd)
    bspace = space.barycentric_representation()
    if bspace is None:
        _fail(f"norep/{kind}", "space has no barycentric representation")
    if bspace.global_dof_count != space.global_dof_count:
        _fail(f"dofcount/{kind}", f"barycentric representation has {bspace.global_dof_count} dofs, space has {space.global_dof_count}")
    rng = np.random.default_rng(int(desc.get("cseed", 0)))
    c = rng.standard_normal(space.global_dof_count)
    if desc.get("complex"):
        c = c + 1j * rng.standard_normal(space.global_dof_count)
    V, E = np.asarray(g.vertices), np.asarray(g.elements).astype(int)
    bg = bspace.grid
    Vb, Eb = np.asarray(bg.vertices), np.asarray(bg.elements).astype(int)
    gc = sg.grid_coeffs(space, c)
    gcb = sg.grid_coeffs(bspace, c)
    pts = np.array([[0.25, 0.6, 0.1, 1 / 3], [0.25, 0.15, 0.7, 1 / 3]])
    bsup = np.flatnonzero(np.asarray(bspace.support))
    if len(bsup) != 6 * space.number_of_support_elements:
        _fail(f"support/{kind}", f"barycentric support has {len(bsup)} cells for {space.number_of_support_elements} coarse elements")
    if len(bsup) > 240:
        bsup = bsup[rng.choice(len(bsup), 240, replace=False)]
    gf = bempp_cl.api.GridFunction(space, coefficients=c)
    gfb = bempp_cl.api.GridFunction(bspace, coefficients=c)
    worst = 0.0
    mag = max(1e-300, float(np.max(np.abs(c))))
    for b in bsup:
        x = refnum.map_points(Vb, Eb, int(b), pts)
        nb = np.cross(Vb[:, Eb[1, b]] - Vb[:, Eb[0, b]], Vb[:, Eb[2, b]] - Vb[:, Eb[0, b]])
        nb /= np.linalg.norm(nb)
        # candidates restricted to the space's support to disambiguate coincident geometry
        ce, cl = sg.locate_points(V, E, x, nb)
        vb = sg.eval_function(bspace, c, int(b), pts, gcb)
        for q in range(pts.shape[1]):
            vc = sg.eval_function(space, c, int(ce[q]), cl[:, [q]], gc)[:, 0]
            scale = max(mag, float(np.max(np.abs(vc))), float(np.max(np.abs(vb[:, q]))))
            err = float(np.max(np.abs(vc - vb[:, q]))) / scale
            worst = max(worst, err)
            if err > 1e-10:
                _fail(f"pointwise/{kind}", f"barycentric cell {int(b)} (child {int(b) % 6} of coarse {int(b) // 6}), point {q}: "
                      f"coarse value {vc}, barycentric value {vb[:, q]} (rel diff {err:.2e})")
        # library evaluators agree with the reference ones
        lv = gfb.evaluate(int(b), pts)
        if np.max(np.abs(lv - vb)) > 1e-10 * max(mag, float(np.max(np.abs(vb)))):
            _fail(f"evaluate_bary/{kind}", f"GridFunction.evaluate on barycentric cell {int(b)} differs from reference evaluation")
    for e in space.support_elements[:10]:
        lv = gf.evaluate(int(e), pts)
        rv = sg.eval_function(space, c, int(e), pts, gc)
        if np.max(np.abs(lv - rv)) > 1e-10 * max(mag, float(np.max(np.abs(rv)))):
            _fail(f"evaluate/{kind}", f"GridFunction.evaluate on element {int(e)} differs from reference evaluation")
    labels = ["pointwise", kind]
    if not np.all(sg.requested_support(g, kw)):
        labels.append("segment")
    if len(set(np.asarray(space.normal_multipliers)[np.asarray(space.support)].tolist())) > 1:
        labels.append("mixed_normal_multipliers")
    nontrivial = bool(desc["mesh"].get("edits")) or desc["mesh"].get("amp", 0) > 0
    return {"nontrivial": nontrivial, "labels": labels, "measured": {"worst_rel": worst}}


def check_dual_nodal(desc):
    """(b): documented nodal values of DUAL1 / DUAL0 basis functions."""
    g = _setup(desc)
    sd = desc["space"]
    kind = sd["kind"]
    kw = sg.space_kwargs(g, sd)
    req = sg.requested_support(g, kw)
    ibd, tr = sg.effective_options(kind, kw)
    if len(sg.model_dof_entities(g, kind, kw)) == 0:
        return {"nontrivial": False, "labels": ["empty_selection"]}
    try:
        space, _ = sg.build_space(g, sd)
    except Exception as exc:  # noqa: BLE001
        if "connected only by a vertex" in str(exc):
            return {"nontrivial": False, "labels": ["clean_rejection_vertex_connected"]}
        raise
    V, E = np.asarray(g.vertices), np.asarray(g.elements).astype(int)
    topo = mg.topology(E)
    bg = space.grid
    Vb, Eb = np.asarray(bg.vertices), np.asarray(bg.elements).astype(int)
    sup = np.asarray(space.support)
    nv, ne = V.shape[1], E.shape[1]
    # classify barycentric vertices geometrically: coarse vertex / edge midpoint / barycentre
    cent = ((V[:, E[0]] + V[:, E[1]] + V[:, E[2]]) / 3).T
    edges = sorted(topo["edges"])
    mids = np.array([0.5 * (V[:, a] + V[:, b]) for a, b in edges])
    scale = np.max(np.abs(V)) + 1e-300

    def classify(p):
        d = np.linalg.norm(V.T - p, axis=1)
        if d.min() < 1e-12 * scale:
            return ("vertex", int(d.argmin()))
        d = np.linalg.norm(cent - p, axis=1)
        if d.min() < 1e-12 * scale:
            return ("centroid", int(d.argmin()))
        d = np.linalg.norm(mids - p, axis=1)
        if d.min() < 1e-12 * scale:
            return ("edge", edges[int(d.argmin())])
        raise AssertionError("unclassified barycentric vertex")

    bclass = [classify(Vb[:, i]) for i in range(Vb.shape[1])]
    T = space.dof_transformation.tocsc()
    l2g = np.asarray(space.local2global).astype(int)
    supcells = np.flatnonzero(sup)
    ndof = space.global_dof_count
    # dof j of DUAL1 <-> j-th requested coarse element; of DUAL0 <-> j-th selected vertex in vertex order
    if kind == "DUAL1":
        owners = [int(e) for e in np.flatnonzero(req)]
    else:
        owners = sorted(v for (_, v) in sg.model_dof_entities(g, kind, kw))
    if len(owners) != ndof:
        _fail(f"dofcount/{kind}", f"{ndof} dofs for {len(owners)} owners")
    corner = np.array([[0.0, 1.0, 0.0], [0.0, 0.0, 1.0]])
    mid = np.array([[1 / 3], [1 / 3]])
    worst = 0.0
    for j in range(ndof):
        cj = np.zeros(ndof)
        cj[j] = 1.0
        gcj = space.dof_transformation @ cj
        own = owners[j]
        for b in supcells:
            if kind == "DUAL1":
                vals = sg.eval_function(space, cj, int(b), corner, gcj)[0]
                for k in range(3):
                    cls = bclass[Eb[k, b]]
                    parent = int(b) // 6
                    if cls[0] == "centroid":
                        want = 1.0 if cls[1] == own else 0.0
                    elif cls[0] == "edge":
                        want = 0.5 if own in topo["edges"][cls[1]] else 0.0
                    else:
                        star = topo["vert_elems"][cls[1]]
                        want = 1.0 / len(star) if own in star else 0.0
                    if tr and not req[parent]:
                        continue
                    err = abs(vals[k] - want)
                    worst = max(worst, err)
                    if err > 1e-12:
                        _fail(f"nodal/DUAL1/{cls[0]}", f"basis function of coarse element {own}: value {vals[k]:.6g} at {cls} seen from "
                              f"barycentric cell {int(b)} (coarse {parent}), documented value {want:.6g}")
            else:
                val = sg.eval_function(space, cj, int(b), mid, gcj)[0, 0]
                first = bclass[Eb[0, b]]
                parent = int(b) // 6
                want = 1.0 if (first == ("vertex", own) and (req[parent] or not tr)) else 0.0
                if abs(val - want) > 1e-12:
                    _fail("nodal/DUAL0", f"basis function of vertex {own}: value {val:.6g} on barycentric cell {int(b)} (coarse {parent}, "
                          f"at {first}), documented value {want:.6g}")
    labels = ["dual_nodal", kind, "segment" if not np.all(req) else "whole"]
    nontrivial = bool(desc["mesh"].get("edits")) or desc["mesh"].get("amp", 0) > 0 or len(topo["boundary_edges"]) > 0
    return {"nontrivial": nontrivial, "labels": labels, "measured": {"worst_abs": worst}}


def _basis_on_bary(space, g, bg, b, x_pts, lp):
    """Values of all (grid-level) basis functions of `space` touching barycentric cell b at local points lp.

    Returns (global dof indices in the space's *global* numbering -> values (codim, Q)) as dict.
    Works for spaces on the coarse grid g (located geometrically) and on the barycentric grid bg.
    """
    out = {}
    if space.grid is bg or space.grid.number_of_elements == bg.number_of_elements:
        if not space.support[b]:
            return out
        vals = sg.ref_basis(space, b, lp)
        l2g = np.asarray(space.local2global)[b].astype(int)
        Tr = space.dof_transformation.tocsr()
        for i in range(vals.shape[1]):
            row = Tr[l2g[i]]
            for gd, w in zip(row.indices, row.data):
                out[gd] = out.get(gd, 0) + w * vals[:, i, :]
        return out
    V, E = np.asarray(g.vertices), np.asarray(g.elements).astype(int)
    ce, cl = sg.locate_points(V, E, x_pts)
    e = int(ce[0])
    if not space.support[e]:
        return out
    vals = sg.ref_basis(space, e, cl)
    l2g = np.asarray(space.local2global)[e].astype(int)
    Tr = space.dof_transformation.tocsr()
    for i in range(vals.shape[1]):
        row = Tr[l2g[i]]
        for gd, w in zip(row.indices, row.data):
            out[gd] = out.get(gd, 0) + w * vals[:, i, :]
    return out


def check_mass(desc):
    """(c): mixed mass matrices equal reference quadrature of the product of the two bases."""
    import bempp_cl.api
    from bempp_cl.api.operators.boundary.sparse import identity

    g = _setup(desc)
    sdd, sdt = desc["domain"], desc["test"]
    for sd in (sdd, sdt):
        kw = sg.space_kwargs(g, sd)
        if sd["kind"] in sg.EDGE_KINDS and not sg.support_is_manifold(g, kw):
            return {"nontrivial": False, "labels": ["skipped_nonmanifold_support"]}
        if len(sg.model_dof_entities(g, sd["kind"], kw)) == 0:
            return {"nontrivial": False, "labels": ["empty_selection"]}
    try:
        dom, _ = sg.build_space(g, sdd)
        tst, _ = sg.build_space(g, sdt)
    except Exception as exc:  # noqa: BLE001
        if "connected only by a vertex" in str(exc):
            return {"nontrivial": False, "labels": ["clean_rejection_vertex_connected"]}
        raise
    par = bempp_cl.api.GLOBAL_PARAMETERS
    old = par.quadrature.regular
    par.quadrature.regular = int(desc.get("order", 4))
    try:
        A = identity(dom, dom, tst).weak_form().to_sparse().toarray()
    except ValueError as exc:
        if "valid barycentric representation" in str(exc):
            return {"nontrivial": False, "labels": ["clean_rejection_no_barycentric_representation"]}
        raise
    finally:
        par.quadrature.regular = old
    bg = g.barycentric_refinement
    Vb, Eb = np.asarray(bg.vertices), np.asarray(bg.elements).astype(int)
    lp, w = refnum.tri_rule(3)
    R = np.zeros((tst.global_dof_count, dom.global_dof_count))
    Gt = np.zeros(tst.global_dof_count)  # squared L2 norms of the basis functions (natural scale of the entries, Cauchy-Schwarz)
    Gd = np.zeros(dom.global_dof_count)
    for b in range(Eb.shape[1]):
        x = refnum.map_points(Vb, Eb, b, lp)
        ie = np.linalg.norm(np.cross(Vb[:, Eb[1, b]] - Vb[:, Eb[0, b]], Vb[:, Eb[2, b]] - Vb[:, Eb[0, b]]))
        bt = _basis_on_bary(tst, g, bg, b, x, lp)
        if not bt:
            continue
        bd = _basis_on_bary(dom, g, bg, b, x, lp)
        for i, vi in bt.items():
            Gt[i] += ie * np.sum(w * np.sum(vi * vi, axis=0))
            for j, vj in bd.items():
                R[i, j] += ie * np.sum(w * np.sum(vi * vj, axis=0))
        for j, vj in bd.items():
            Gd[j] += ie * np.sum(w * np.sum(vj * vj, axis=0))
    # pairings such as <f, n x f> vanish identically: the floor is 1e-4 of the Cauchy-Schwarz bound, not of the (zero) matrix itself
    scale = max(np.max(np.abs(R)), 1e-4 * np.sqrt(max(np.max(Gt), 1e-300) * max(np.max(Gd), 1e-300)), 1e-300)
    err = np.max(np.abs(A - R)) / scale
    # conditioning of the geometry: coordinates of size |x| on elements of size h carry a relative error eps |x| / h (a 1e-3-sized,
    # repeatedly split strip translated by 0.5: |x| / h ~ 5e3)
    Vg = np.asarray(g.vertices)
    hmin = float(np.sqrt(np.min(np.asarray(bg.volumes))))
    tol_m = 1e-10 + 2e-13 * float(np.max(np.abs(Vg))) / max(hmin, 1e-300)
    if A.shape != R.shape or err > tol_m:
        i, j = np.unravel_index(np.argmax(np.abs(A - R)), A.shape)
        _fail(f"mass/{sdt['kind']}_x_{sdd['kind']}", f"identity({sdd['kind']},.,{sdt['kind']}): entry ({i},{j}) = {A[i, j]:.10g}, exact integral "
              f"{R[i, j]:.10g} (max rel diff {err:.2e})")
    labels = ["mass", f"{sdt['kind']}x{sdd['kind']}"]
    nontrivial = bool(desc["mesh"].get("edits")) or desc["mesh"].get("amp", 0) > 0
    return {"nontrivial": nontrivial, "labels": labels, "measured": {"rel_err": float(err)}}


CHECKS = {"pointwise": check_pointwise, "dual_nodal": check_dual_nodal, "mass": check_mass}

_MASS_PAIRS = {
    "scalar": [("P1", "DUAL0"), ("DUAL0", "P1"), ("DP0", "DUAL1"), ("DUAL1", "DP0"), ("DP0", "DUAL0"), ("P1", "DUAL1"),
               ("DUAL1", "P1"), ("DUAL0", "DUAL1"), ("DUAL1", "DUAL1"), ("DUAL0", "DUAL0")],
    "vector": [("RWG", "RBC"), ("BC", "SNC"), ("SNC", "BC"), ("RBC", "RWG"), ("BC", "RBC"), ("RWG", "BC"), ("BC", "BC"), ("RBC", "SNC")],
}


def shards(tier, seed=1):
    from vlib.pbt import rot

    q = tier == "quick"
    n = 1 if q else 10
    out = []
    for kinds in (["DP0", "P1"], ["RWG", "SNC"]):
        for mk in (rot(["closed", "open"], seed, 1) if q else ["closed", "open"]):
            out.append({"check": "pointwise", "kinds": kinds, "meshkind": mk, "examples": 25 * n, "budget_s": 200 * n})
    for k in ("DUAL1", "DUAL0"):
        for mk in (rot(["open", "closed"], seed, 1) if q else ["closed", "open"]):
            out.append({"check": "dual_nodal", "kinds": [k], "meshkind": mk, "examples": 20 * n, "budget_s": 200 * n})
    for grp in ("scalar", "vector"):
        for mk in (rot(["closed", "open"], seed + (grp == "vector"), 1) if q else ["closed", "open"]):
            out.append({"check": "mass", "group": grp, "meshkind": mk, "examples": 18 * n, "budget_s": 260 * n})
    return out


def strategy(spec):
    from hypothesis import strategies as st

    mk = spec["meshkind"]

    def meshes(max_elems):
        return mg.mesh_descs(mk, max_elems=max_elems, domains=True, min_edits=0, allow_refine=False)

    if spec["check"] == "pointwise":
        @st.composite
        def s(draw):
            mesh, sd = draw(meshes(40)), draw(sg.space_descs(spec["kinds"], swapped=True))
            if sd.get("swapped") and (mesh["domains"]["mode"] == "all0" or mesh["domains"]["n"] < 2):
                # normals swapped on a proper subset of the domains (mixed normal multipliers)
                mesh["domains"]["mode"] = "patch"
                mesh["domains"]["n"] = draw(st.integers(2, 3))
            return {"mesh": mesh, "space": sd, "cseed": draw(st.integers(0, 999)), "complex": draw(st.booleans())}
        return s()
    if spec["check"] == "dual_nodal":
        @st.composite
        def s(draw):
            sd = draw(sg.space_descs(spec["kinds"]))
            mesh = draw(meshes(24))
            if mesh.get("domains", {}).get("mode") == "scatter":
                mesh["domains"]["mode"] = "patch"
            return {"mesh": mesh, "space": sd}
        return s()
    pairs = _MASS_PAIRS[spec["group"]]

    @st.composite
    def s(draw):
        d, t = draw(st.sampled_from(pairs))
        mesh = draw(meshes(24))
        if mesh.get("domains", {}).get("mode") == "scatter":
            mesh["domains"]["mode"] = "patch"
        seg = draw(st.sampled_from([None, None, ["segments", [0]], ["segments", [0, 1]]]))
        sdd, sdt = {"kind": d}, {"kind": t}
        if seg is not None:
            sdd["sel"] = seg
            sdt["sel"] = seg
        if mk == "closed" and draw(st.booleans()):
            for sd in (sdd, sdt):
                if sd["kind"] not in ("DP0", "DP1", "DUAL1"):
                    sd["ibd"] = True
        return {"mesh": mesh, "domain": sdd, "test": sdt, "order": draw(st.integers(3, 8))}

    return s()


def required_labels(tier):
    return ["pointwise", "DP0", "P1", "RWG", "SNC", "dual_nodal", "DUAL0", "DUAL1", "mass", "segment"]

"""C08 Potentials and far fields satisfy their PDEs, normalisation and asymptotics."""

import numpy as np

from vlib.pbt import Violation
from vlib import meshgen as mg
from vlib import spacegen as sg
from vlib import opgen as og
from vlib import refnum

LEVEL = "exploration"
RULE = (
    "(mesh closed/open/segments, space descriptor, real or complex coefficient seed, off-surface points at >= 0.5 diameters, wavenumber "
    "real/complex/omega, quadrature order): (a) potential and far-field values == closed-form kernel sum over the library's quadrature "
    "points computed in numpy from reference bases and Green's functions written from the formulas (exact tolerance); (b) PDE residuals "
    "by 4th-order finite differences of the library's values (Laplace, Helmholtz, modified Helmholtz; curl E = ikH, div H = 0 at every "
    "order; curl H = -ikE, div E = 0 under a regular-order ladder); (c) far field == lim r e^{-ikr} u(r x) by Richardson in 1/r and "
    "translation law F_{G+t} = e^{-ik x.t} F_G. Non-trivial = non-zero density and |k|D in [0.1,10]; distinct by descriptor hash."
)
ORACLES = ["closed-form kernel sums", "finite-difference PDE residuals", "asymptotic limit + translation law"]
ASSUMPTIONS = ["finite differences use h = 1e-2 x distance with Richardson confirmation; tolerance 2e-6 relative to the stencil magnitude"]

TOL = 5e-11


def _fail(sig, msg):
    raise Violation("C08/" + sig, msg)


def _points(g, desc):
    """Evaluation points at >= 0.5 diameters from the surface (constructed on a sphere around the grid + a few drawn directions)."""
    V = np.asarray(g.vertices)
    c = V.mean(axis=1)
    R = np.max(np.linalg.norm(V - c[:, None], axis=0))
    dirs = np.array(desc.get("dirs", [[1, 0, 0], [0, 1, 0.3], [-0.4, 0.2, 1.0], [0.5, -1, -0.7]]), dtype=float).T
    dirs = dirs / np.linalg.norm(dirs, axis=0)
    fac = np.array(desc.get("radii", [2.0, 2.5, 4.0, 10.0])[: dirs.shape[1]])
    return c[:, None] + dirs * (R * fac)[None, :], R


def _quad_data(space, order):
    """Physical quadrature points, weights*ie, reference function values composed with coefficient map, effective normals."""
    from bempp_cl.api.integration.triangle_gauss import rule

    lp, w = rule(order)
    g = space.grid
    V, E = np.asarray(g.vertices), np.asarray(g.elements).astype(int)
    nm = np.asarray(space.normal_multipliers).astype(float)
    Y, W, N, EL = [], [], [], []
    for e in np.flatnonzero(np.asarray(space.support)):
        Y.append(refnum.map_points(V, E, int(e), lp))
        cr = np.cross(V[:, E[1, e]] - V[:, E[0, e]], V[:, E[2, e]] - V[:, E[0, e]])
        ie = np.linalg.norm(cr)
        W.append(w * ie)
        N.append(np.repeat((cr / ie * nm[e])[:, None], lp.shape[1], axis=1))
        EL.append(int(e))
    return lp, np.hstack(Y), np.hstack(W), np.hstack(N), EL


def _density(space, c, lp, elems):
    gc = sg.grid_coeffs(space, c)
    vals = [sg.eval_function(space, c, e, lp, gc) for e in elems]
    return np.hstack(vals)  # (cod, nq_total)


def _divergence(space, c, lp, elems):
    """Surface divergence of an RWG-type density at the quadrature points (constant per element)."""
    g = space.grid
    V, E = np.asarray(g.vertices), np.asarray(g.elements).astype(int)
    gc = sg.grid_coeffs(space, c)
    l2g = np.asarray(space.local2global).astype(int)
    mult = np.asarray(space.local_multipliers).astype(float)
    out = []
    edges = [(0, 1), (2, 0), (1, 2)]
    for e in elems:
        p = [V[:, E[i, e]] for i in range(3)]
        ie = np.linalg.norm(np.cross(p[1] - p[0], p[2] - p[0]))
        d = 0.0
        for i, (a, b) in enumerate(edges):
            d = d + gc[l2g[e, i]] * mult[e, i] * 2 * np.linalg.norm(p[a] - p[b]) / ie
        out.append(np.full(lp.shape[1], d))
    return np.hstack(out)


def closed_form(fam, op, space, c, X, k, order, far=False):
    """Kernel sum over the library's quadrature points written from the formulas."""
    lp, Y, W, N, elems = _quad_data(space, order)
    f = _density(space, c, lp, elems)
    if far:
        d = X.T @ Y  # x_hat . y
        ph = np.exp(-1j * k * d) / (4 * np.pi)
        if fam == "helmholtz":
            if op == "V":
                return (ph * (W * f[0])[None, :]).sum(axis=1)[None, :]
            xn = X.T @ N
            return (ph * (-1j * k) * xn * (W * f[0])[None, :]).sum(axis=1)[None, :]
        div = _divergence(space, c, lp, elems)
        if op == "E":
            # lim r e^{-ikr} [ik S f - (1/ik) grad S div f] = ik F[f] - (1/ik)(ik x_hat) F[div f]
            a = np.einsum("pq,cq->cp", ph, W[None, :] * f)
            b = (ph * (W * div)[None, :]).sum(axis=1)
            return 1j * k * a - X * b[None, :]
        a = np.einsum("pq,cq->cp", ph, W[None, :] * f)
        return 1j * k * np.cross(X, a, axis=0)
    D = X[:, :, None] - Y[:, None, :]
    r = np.linalg.norm(D, axis=0)
    if fam == "laplace":
        G = 1.0 / (4 * np.pi * r)
        kk = 0.0
    elif fam == "modified":
        G = np.exp(-k * r) / (4 * np.pi * r)
        kk = 1j * k
    else:
        G = np.exp(1j * k * r) / (4 * np.pi * r)
        kk = k
    if fam in ("laplace", "helmholtz", "modified"):
        if op == "V":
            return (G * (W * f[0])[None, :]).sum(axis=1)[None, :]
        # d/dn_y G = grad_y G . n = -(ik - 1/r) G (x-y).n / r
        gradfac = -(1j * kk - 1.0 / r) * G / r
        dn = np.einsum("cpq,cq->pq", D, N)
        val = (gradfac * dn * (W * f[0])[None, :]).sum(axis=1)[None, :]
        return val.real if fam in ("laplace", "modified") and not np.iscomplexobj(f) else val
    div = _divergence(space, c, lp, elems)
    gradG = (1j * k - 1.0 / r) * G / r * D  # grad_x G, (3, p, q)
    if op == "E":
        a = np.einsum("pq,cq->cp", G, W[None, :] * f)
        b = np.einsum("cpq,q->cp", gradG, W * div)
        return 1j * k * a - b / (1j * k)
    Wf = W[None, :] * f
    return np.cross(gradG, np.broadcast_to(Wf[:, None, :], gradG.shape), axis=0).sum(axis=2)


def _space_and_coeffs(desc):
    import bempp_cl.api

    g = mg.make_grid(desc["mesh"])
    sd = desc["space"]
    kw = sg.space_kwargs(g, sd)
    if sd["kind"] in sg.EDGE_KINDS and not sg.support_is_manifold(g, kw):
        return None
    if len(sg.model_dof_entities(g, sd["kind"], kw)) == 0:
        return None
    try:
        space, _ = sg.build_space(g, sd)
    except Exception as exc:  # noqa: BLE001
        if "connected only by a vertex" in str(exc):
            return None
        raise
    rng = np.random.default_rng(int(desc.get("cseed", 0)))
    c = rng.standard_normal(space.global_dof_count)
    if desc.get("complex"):
        c = c + 1j * rng.standard_normal(space.global_dof_count)
    return g, space, c


def _scaled_k(desc, g):
    if desc.get("k") is None:
        return None
    D = float(np.linalg.norm(g.bounding_box[:, 1] - g.bounding_box[:, 0]))
    return og.wavenumber(desc["k"]) / D


def check_values(desc):
    import bempp_cl.api

    sc = _space_and_coeffs(desc)
    if sc is None:
        return {"nontrivial": False, "labels": ["skipped"]}
    g, space, c = sc
    fam, op = desc["fam"], desc["op"]
    k = _scaled_k(desc, g)
    order = desc["order"]
    par = og.make_params(order, 4)
    X, R = _points(g, desc)
    gf = bempp_cl.api.GridFunction(space, coefficients=c)
    lib = og.potential_operator(fam, op, space, np.asfortranarray(X), k, parameters=par).evaluate(gf)
    ref = closed_form(fam, op, space, c, X, k, order)
    err = og.relerr(lib, ref)
    # conditioning: distances d = |x - y| are formed from coordinates of size |x| (relative error eps |x| / d); the kernel e^{ikd}/d and its
    # derivatives then carry a relative error ~ eps (|x| / d) (1 + |k| d). Matters for a 1e-3-sized grid translated by 100.
    V_ = np.asarray(g.vertices)
    cmax = max(float(np.max(np.abs(V_))), float(np.max(np.abs(X))))
    dmin = max(float(np.min(R)) if np.size(R) else 1.0, 1e-300)
    kabs = abs(k) if k is not None else 0.0
    tol_v = TOL + 50 * 2.3e-16 * (cmax / dmin) * (1 + kabs * dmin)
    if lib.shape != ref.shape or err > tol_v:
        _fail(f"closed_form/{fam}_{op}/{desc['space']['kind']}", f"potential differs from the closed-form kernel sum by {err:.2e} (k={k}, order={order})")
    labels = ["values", f"{fam}_{op}", desc["space"]["kind"]]
    if k is not None and np.imag(k) != 0:
        labels.append("complex_k")
    if desc.get("complex"):
        labels.append("complex_coeffs")
    if desc["space"].get("sel"):
        labels.append("segment")
    return {"nontrivial": True, "labels": labels, "measured": {"rel_err": err}}


_ST = np.array([-2, -1, 0, 1, 2])
_D1 = np.array([1, -8, 0, 8, -1]) / 12.0
_D2 = np.array([-1, 16, -30, 16, -1]) / 12.0


def _stencil_points(X, h):
    """For each point: 3 axes x 5 offsets."""
    pts = []
    for p in range(X.shape[1]):
        for ax in range(3):
            for s in _ST:
                q = X[:, p].copy()
                q[ax] += s * h[p]
                pts.append(q)
    return np.array(pts).T


def check_pde(desc):
    import bempp_cl.api

    sc = _space_and_coeffs(desc)
    if sc is None:
        return {"nontrivial": False, "labels": ["skipped"]}
    g, space, c = sc
    fam = desc["fam"]
    k = _scaled_k(desc, g)
    X, R = _points(g, desc)
    V = np.asarray(g.vertices)
    dist = np.array([np.min(np.linalg.norm(V - X[:, [p]], axis=0)) for p in range(X.shape[1])])
    gf = bempp_cl.api.GridFunction(space, coefficients=c)
    labels = ["pde", fam]

    def fd(op, order, hfac):
        h = hfac * dist
        if k is not None:
            h = np.minimum(h, 5 * hfac / abs(k))  # keep |k| h small: the stencil error is O((kh)^4)
        P = _stencil_points(X, h)
        vals = og.potential_operator(fam, op, space, np.asfortranarray(P), k, parameters=og.make_params(order, 4)).evaluate(gf)
        kd = vals.shape[0]
        vals = vals.reshape(kd, X.shape[1], 3, 5)
        d1 = np.einsum("cpas,s->cpa", vals, _D1) / h[None, :, None]
        d2 = np.einsum("cpas,s->cpa", vals, _D2) / (h * h)[None, :, None]
        u = vals[:, :, 0, 2]
        mag2 = np.einsum("cpas,s->cpa", np.abs(vals), np.abs(_D2)) / (h * h)[None, :, None]
        mag1 = np.einsum("cpas,s->cpa", np.abs(vals), np.abs(_D1)) / h[None, :, None]
        return u, d1, d2, mag1, mag2

    order = desc["order"]
    if fam != "maxwell":
        for op in ("V", "K"):
            res = {}
            for hfac in (1e-2, 5e-3):
                u, d1, d2, mag1, mag2 = fd(op, order, hfac)
                lap = d2.sum(axis=2)[0]
                if fam == "laplace":
                    r = lap
                elif fam == "helmholtz":
                    r = lap + k * k * u[0]
                else:
                    r = lap - k * k * u[0]
                # relative to the size of the second derivatives (analytic scale u/dist^2), not to the cancellation-prone stencil sum
                scale = np.abs(u[0]) / dist**2 + np.abs(k * k * u[0] if k is not None else 0)
                res[hfac] = np.abs(r) / (scale + 1e-300)
            worst = float(np.max(np.minimum(res[1e-2], res[5e-3])))
            if worst > 2e-5 and float(np.max(res[5e-3])) > 2e-5:
                _fail(f"pde/{fam}_{op}", f"PDE residual of the {op} potential is {worst:.2e} relative to |u|/d^2 (finite differences h=1e-2 d and 5e-3 d), k={k}")
        return {"nontrivial": True, "labels": labels + (["complex_k"] if k is not None and np.imag(k) != 0 else []), "measured": {"worst": worst}}
    # Maxwell
    def curl(d1):
        return np.stack([d1[2, :, 1] - d1[1, :, 2], d1[0, :, 2] - d1[2, :, 0], d1[1, :, 0] - d1[0, :, 1]])

    def ladder_eval(order):
        uE, dE, _, mE, _ = fd("E", order, 1e-2)
        uH, dH, _, mH, _ = fd("M", order, 1e-2)
        sE = np.max(np.abs(uE), axis=0) / dist + 1e-300
        sH = np.max(np.abs(uH), axis=0) / dist + 1e-300
        r1 = np.max(np.abs(curl(dE) - 1j * k * uH), axis=0) / (sE + np.abs(k) * np.max(np.abs(uH), axis=0))
        r2 = np.abs(dH[0, :, 0] + dH[1, :, 1] + dH[2, :, 2]) / sH
        r3 = np.max(np.abs(curl(dH) + 1j * k * uE), axis=0) / (sH + np.abs(k) * np.max(np.abs(uE), axis=0))
        r4 = np.abs(dE[0, :, 0] + dE[1, :, 1] + dE[2, :, 2]) / sE
        return float(r1.max()), float(r2.max()), float(r3.max()), float(r4.max())

    r1, r2, r3, r4 = ladder_eval(order)
    if r1 > 2e-5:
        _fail("pde/maxwell_curlE", f"curl E - ik H = {r1:.2e} (relative), order {order}, k={k}")
    if r2 > 2e-5:
        _fail("pde/maxwell_divH", f"div H = {r2:.2e} (relative), order {order}, k={k}")
    lad = [(order, r3, r4)]
    # curl H = -ikE and div E = 0 need a density without normal trace on the boundary of its support (no line charges):
    # RWG without boundary dofs, or any space on a whole closed grid.
    ibd, _tr = sg.effective_options(desc["space"]["kind"], sg.space_kwargs(g, desc["space"]))
    topo_closed = not mg.topology(np.asarray(g.elements))["boundary_edges"]
    div_conforming = (desc["space"]["kind"] == "RWG" and not ibd) or (topo_closed and not desc["space"].get("sel"))
    if not div_conforming:
        labels.append("line_charges_skip_curlH")
    if div_conforming and max(r3, r4) > 2e-5:
        # integration by parts identity: must converge with the regular order
        for o in (12, 18):
            _, _, a, b = ladder_eval(o)
            lad.append((o, a, b))
        if lad[-1][1] > 2e-5 and lad[-1][1] > 0.05 * lad[0][1]:
            _fail("pde/maxwell_curlH", f"curl H + ik E does not vanish with the regular order: {[(o, '%.1e' % a) for o, a, b in lad]}")
        if lad[-1][2] > 2e-5 and lad[-1][2] > 0.05 * lad[0][2]:
            _fail("pde/maxwell_divE", f"div E does not vanish with the regular order: {[(o, '%.1e' % b) for o, a, b in lad]}")
    return {"nontrivial": True, "labels": labels + (["complex_k"] if np.imag(k) != 0 else []), "measured": {"curlE": r1, "divH": r2, "ladder": lad}}


def _far(fam, op, space, X, k, par):
    from bempp_cl.api.operators.far_field import helmholtz as fh, maxwell as fm

    if fam == "helmholtz":
        f = {"V": fh.single_layer, "K": fh.double_layer}[op]
    else:
        f = {"E": fm.electric_field, "M": fm.magnetic_field}[op]
    return f(space, np.asfortranarray(X), k, parameters=par)


def check_farfield(desc):
    import bempp_cl.api

    sc = _space_and_coeffs(desc)
    if sc is None:
        return {"nontrivial": False, "labels": ["skipped"]}
    g, space, c = sc
    fam, op = desc["fam"], desc["op"]
    k = _scaled_k(desc, g)
    order = desc["order"]
    par = og.make_params(order, 4)
    dirs = np.array(desc.get("dirs", [[1, 0, 0], [0, 1, 0.3], [-0.4, 0.2, 1.0]]), dtype=float).T
    X = dirs / np.linalg.norm(dirs, axis=0)
    gf = bempp_cl.api.GridFunction(space, coefficients=c)
    cls = "complex_k" if np.imag(k) != 0 else "real_k"
    F = _far(fam, op, space, X, k, par).evaluate(gf)
    # (a) closed form
    ref = closed_form(fam, op, space, c, X, k, order, far=True)
    err = og.relerr(F, ref)
    if err > TOL:
        _fail(f"farfield_closed_form/{fam}_{op}/{cls}", f"far field differs from the closed-form sum e^{{-ik x.y}} by {err:.2e} (k={k})")
    # (c) limit r e^{-ikr} u(r x): Richardson in 1/r
    V = np.asarray(g.vertices)
    cen = V.mean(axis=1)
    D = float(np.linalg.norm(g.bounding_box[:, 1] - g.bounding_box[:, 0]))
    # The limit is taken about the grid's centroid c (u(c + r x) r e^{-ikr} -> e^{ik x.c} F(x)): about the origin the phase term
    # |k| |y|^2 / r of a far-away, short-wavelength grid would need radii at which k r eps already exceeds the tolerance.
    R0 = float(np.max(np.linalg.norm(V - cen[:, None], axis=0)))
    r1 = max(2e3 * R0, 1e3 * abs(k) * R0 * R0)
    if fam == "maxwell":
        r1 = max(r1, 3e3 / abs(k))  # the E and H potentials carry 1/(ikr) corrections: at small k the far zone starts at r >> 1/|k|
    if np.imag(k) != 0:
        r1 = min(r1, 250.0 / abs(np.imag(k)))
    lim = []
    for r in (r1, 2 * r1):
        P = og.potential_operator(fam, op, space, np.asfortranarray(cen[:, None] + r * X), k, parameters=par).evaluate(gf)
        lim.append(r * np.exp(-1j * k * r) * P)
    extr = 2 * lim[1] - lim[0]
    Fc = F * np.exp(1j * k * (X.T @ cen))[None, :]
    e_lim = og.relerr(Fc, extr)
    # remainder after one Richardson step: squares of the amplitude term R0/r and of the phase term |k| R0^2 / r; plus the
    # rounding of the distances |c + r x - y| in the phase (|k| (|c| + r) eps)
    tol_lim = 50 * ((R0 / r1) ** 2 + (abs(k) * R0 * R0 / r1) ** 2 + (1.0 / (abs(k) * r1)) ** 2 * (fam == "maxwell")) + 1e-7 + 50 * abs(k) * (float(np.linalg.norm(cen)) + 2 * r1) * 2.3e-16
    if e_lim > tol_lim:
        _fail(f"farfield_limit/{fam}_{op}/{cls}", f"far field differs from lim r e^{{-ikr}} u(r x) by {e_lim:.2e} (tolerance {tol_lim:.1e}), k={k}")
    # translation law
    t = np.array(desc.get("shift", [0.3, -0.2, 0.5])) * D
    m = mg.build(desc["mesh"])
    g2 = bempp_cl.api.Grid(m["vertices"] + t[:, None], m["elements"], m["domains"].astype("uint32"))
    space2, _ = sg.build_space(g2, desc["space"])
    F2 = _far(fam, op, space2, X, k, par).evaluate(bempp_cl.api.GridFunction(space2, coefficients=c))
    want = np.exp(-1j * k * (X.T @ t))[None, :] * F
    e_tr = og.relerr(F2, want)
    if e_tr > 1e-9:
        _fail(f"farfield_translation/{fam}_{op}/{cls}", f"F_(G+t) differs from e^(-ik x.t) F_G by {e_tr:.2e}, k={k}")
    return {"nontrivial": True, "labels": ["farfield", f"{fam}_{op}", cls], "measured": {"closed": err, "limit": e_lim, "translation": e_tr}}


CHECKS = {"values": check_values, "pde": check_pde, "farfield": check_farfield}

_SCALAR_SPACES = ["DP0", "DP1", "P1"]
_VECTOR_SPACES = ["RWG", "BC"]


def shards(tier, seed=1):
    from vlib.pbt import rot

    q = tier == "quick"
    n = 1 if q else 8
    out = []
    vals = [(f, o) for f in ("laplace", "helmholtz", "modified") for o in ("V", "K")] + [("maxwell", "E"), ("maxwell", "M")]
    # every potential kernel and every far-field kernel in every run (each is its own function in core/numba_kernels.py)
    for fam, op in vals:
        out.append({"check": "values", "fam": fam, "op": op, "examples": 10 if q else 112, "budget_s": 100 if q else 1920})
    pd = ["helmholtz", "maxwell", "laplace", "modified"]
    for fam in (rot(pd, seed, 1) if q else pd):
        out.append({"check": "pde", "fam": fam, "examples": 6 * n, "budget_s": 240 * n})
    ff = [("helmholtz", "V"), ("helmholtz", "K"), ("maxwell", "E"), ("maxwell", "M")]
    for fam, op in ff:
        out.append({"check": "farfield", "fam": fam, "op": op, "examples": 8 if q else 80, "budget_s": 120 if q else 2080})
    return out


def strategy(spec):
    from hypothesis import strategies as st

    fam = spec["fam"]
    vector = fam == "maxwell"

    @st.composite
    def s(draw):
        if vector:
            closed = draw(st.booleans())
            mesh = draw(mg.mesh_descs("closed" if closed else "open", max_elems=24, domains=True, max_edits=2, allow_refine=False,
                                      bases=None if closed else ["sheet", "strip", "fan"]))
            if mesh.get("domains", {}).get("mode") == "scatter":
                mesh["domains"]["mode"] = "patch"
            kinds = _VECTOR_SPACES if closed else ["RWG"]
        else:
            mesh = draw(mg.mesh_descs("any", max_elems=30, domains=True, max_edits=2, allow_refine=False))
            kinds = _SCALAR_SPACES
        if fam == "laplace":
            k = None
        elif fam == "modified":
            k = draw(st.sampled_from([[0.5, 0], [2.0, 0], [6.0, 0]]))
        else:
            k = draw(st.sampled_from([[1.0, 0], [2.5, 1.0], [0.3, 0.2], [5.0, 0], [1.3, 0.4], [8.0, 0.5], [0.2, 0]]))
        sdx = draw(sg.space_descs(kinds))
        if sdx["kind"] == "BC":
            sdx.pop("sel", None)  # BC on open segments is the recorded defect D16 (C09); keep it out of this property's domain
        d = {"mesh": mesh, "space": sdx, "fam": fam, "k": k, "order": draw(st.integers(2, 8)),
             "cseed": draw(st.integers(0, 999)), "complex": draw(st.booleans())}
        if "op" in spec:
            d["op"] = spec["op"]
        if spec["check"] == "pde":
            d["order"] = draw(st.sampled_from([4, 6, 8]))
        return d
    return s()


def required_labels(tier):
    return ["values", "pde", "farfield", "real_k"] if tier == "quick" else [
        "values", "pde", "farfield", "complex_k", "real_k", "complex_coeffs", "segment", "laplace_V", "laplace_K", "helmholtz_V",
        "helmholtz_K", "modified_V", "modified_K", "maxwell_E", "maxwell_M"]



"""C04 Operators on a subspace are congruence transforms of those on a larger space."""

import numpy as np

from vlib.pbt import Violation
from vlib import meshgen as mg
from vlib import spacegen as sg
from vlib import opgen as og
from vlib import refnum

LEVEL = "exploration"
RULE = (
    "Part 1 (exact): (mesh, operator family/op, wavenumber, quadrature orders, independently drawn test and trial space descriptors "
    "incl. non-prefix segments/support_elements, boundary-dof and truncation options): dense matrix of the operator on (test, trial) "
    "equals T_t^T A_loc T_d with A_loc assembled once on the full-grid discontinuous/localised space of the same shapeset and T rebuilt by the "
    "harness from local2global/multipliers/support. Part 2 (quadrature-limited): prolongation P of DP0/P1/RWG spaces to grid.refine() "
    "(1 and 2 levels) and to the barycentric refinement is measured functionally (expansion residual <= 1e-12 required), then "
    "||P^T A_fine P - A_coarse|| must decay on a ladder of quadrature orders. Non-trivial = proper subspace (T drops an element or merges "
    "local dofs) / at least one refinement level; distinct by descriptor hash."
)
ORACLES = ["congruence with the full-grid element-wise operator", "functionally measured prolongation + convergence ladder"]
ASSUMPTIONS = ["A_loc comes from the same assembler on a different (larger, element-wise) space: errors common to every space are invisible here and are the business of C01/C02/C07/C08"]

TOL = 1e-11


def _fail(sig, msg):
    raise Violation("C04/" + sig, msg)


_SHAPE_OF = {"DP0": "p0", "DP1": "p1", "P1": "p1", "RWG": "rwg", "SNC": "snc"}


def harness_T(space):
    """Coefficient map of a (non-barycentric) space to the full-grid element-wise basis, rebuilt from definition data."""
    from scipy.sparse import coo_matrix

    ns = space.number_of_shape_functions
    l2g = np.asarray(space.local2global).astype(int)
    mult = np.asarray(space.local_multipliers).astype(float)
    sup = np.flatnonzero(np.asarray(space.support))
    rows, cols, vals = [], [], []
    for e in sup:
        for i in range(ns):
            rows.append(ns * e + i)
            cols.append(l2g[e, i])
            vals.append(mult[e, i])
    T = coo_matrix((vals, (rows, cols)), shape=(ns * space.grid.number_of_elements, space.grid_dof_count)).tocsr()
    if space.requires_dof_transformation:
        T = T @ space.dof_transformation
    return T


def _loc_space(g, shape):
    import bempp_cl.api

    if shape == "p0":
        return bempp_cl.api.function_space(g, "DP", 0)
    if shape == "p1":
        return bempp_cl.api.function_space(g, "DP", 1)
    if shape == "rwg":
        s = bempp_cl.api.function_space(g, "RWG", 0, include_boundary_dofs=True)
    else:
        s = bempp_cl.api.function_space(g, "SNC", 0, include_boundary_dofs=True)
    return s.localised_space


def check_congruence(desc):
    import bempp_cl.api

    g = mg.make_grid(desc["mesh"])
    fam, op = desc["fam"], desc["op"]
    k = og.wavenumber(desc["k"]) if desc.get("k") is not None else None
    par = og.make_params(desc["orders"][0], desc["orders"][1])
    tshape, dshape = desc["tshape"], desc["dshape"]
    loc_t = _loc_space(g, tshape)
    loc_d = _loc_space(g, dshape)
    if loc_t.number_of_support_elements != g.number_of_elements or loc_d.number_of_support_elements != g.number_of_elements:
        return {"nontrivial": False, "labels": ["skipped_partial_localised"]}
    if fam == "sparse":
        A_loc = og.boundary_operator(fam, op, loc_d, loc_d, loc_t, parameters=par).weak_form().to_sparse().toarray()
    else:
        A_loc = og.dense(og.raw_like(fam, op, loc_d, loc_d, loc_t, k, parameters=par))
    labels = ["congruence", f"{fam}_{op}", f"{tshape}x{dshape}"]
    nontrivial = False
    worst = 0.0
    for sdt in desc["tests"]:
        for sdd in desc["trials"]:
            skip = False
            for sd in (sdt, sdd):
                kw = sg.space_kwargs(g, sd)
                if sd["kind"] in sg.EDGE_KINDS and not sg.support_is_manifold(g, kw):
                    skip = True
                if len(sg.model_dof_entities(g, sd["kind"], kw)) == 0:
                    skip = True
            if skip:
                labels.append("skipped_pair")
                continue
            st, kwt = sg.build_space(g, sdt)
            sd_, kwd = sg.build_space(g, sdd)
            Tt, Td = harness_T(st), harness_T(sd_)
            for nm, sp, Th in (("test", st, Tt), ("trial", sd_, Td)):
                Tl = sp.map_to_full_grid
                if sp.requires_dof_transformation:
                    Tl = Tl @ sp.dof_transformation
                if (abs(Tl - Th)).max() != 0:
                    _fail(f"map_to_full_grid/{sp.identifier}", f"{nm} space map_to_full_grid differs from the map rebuilt from local2global/multipliers")
            if fam == "sparse":
                A = og.boundary_operator(fam, op, sd_, sd_, st, parameters=par).weak_form().to_sparse().toarray()
            else:
                A = og.dense(og.boundary_operator(fam, op, sd_, sd_, st, k, parameters=par))
            R = Tt.T @ A_loc @ Td
            R = np.asarray(R)
            if A.shape != R.shape:
                _fail(f"shape/{fam}_{op}", f"{A.shape} vs {R.shape}")
            err = og.relerr(A, R, og.entry_floor(g, fam, op))
            worst = max(worst, err)
            if err > TOL:
                i, j = np.unravel_index(np.argmax(np.abs(A - R)), A.shape)
                cls = []
                for sp, kw_ in ((st, kwt), (sd_, kwd)):
                    req = sg.requested_support(g, kw_)
                    cls.append("whole" if np.all(req) else ("prefix" if np.array_equal(np.flatnonzero(req), np.arange(req.sum())) else "nonprefix"))
                _fail(f"congruence/{fam}_{op}/{sdt['kind']}x{sdd['kind']}/{cls[0]}-{cls[1]}",
                      f"A_S differs from T_t^T A_loc T_d by {err:.2e} (entry ({i},{j}): {A[i, j]:.8g} vs {R[i, j]:.8g}); k={k}, orders={desc['orders']}")
            for sp, kw_ in ((st, kwt), (sd_, kwd)):
                req = sg.requested_support(g, kw_)
                if not np.all(req):
                    nontrivial = True
                    labels.append("proper_support")
                    if not np.array_equal(np.flatnonzero(req), np.arange(req.sum())):
                        labels.append("non_prefix_support")
                if sp.grid_dof_count < sp.number_of_shape_functions * sp.number_of_support_elements:
                    nontrivial = True
            if not np.array_equal(st.support, sd_.support):
                labels.append("different_supports")
    if k is not None and np.imag(k) != 0:
        labels.append("complex_k")
    return {"nontrivial": nontrivial, "labels": sorted(set(labels)), "measured": {"worst_rel": worst}}


# ---------------------------------------------------------------- part 2: prolongation
def _prolongation(coarse, fine):
    """Measure P with fine-basis coefficients of each coarse basis function (functional, geometric)."""
    gc, gf = coarse.grid, fine.grid
    Vc, Ec = np.asarray(gc.vertices), np.asarray(gc.elements).astype(int)
    Vf, Ef = np.asarray(gf.vertices), np.asarray(gf.elements).astype(int)
    nc, nf = coarse.global_dof_count, fine.global_dof_count
    P = np.zeros((nf, nc))
    shape = coarse.shapeset.identifier
    l2gf = np.asarray(fine.local2global).astype(int)
    l2gc = np.asarray(coarse.local2global).astype(int)
    multf = np.asarray(fine.local_multipliers).astype(float)
    multc = np.asarray(coarse.local_multipliers).astype(float)
    cen = np.array([[1 / 3], [1 / 3]])
    corners = np.array([[0.0, 1.0, 0.0], [0.0, 0.0, 1.0]])
    inner = np.array([[0.2, 0.6, 0.2], [0.2, 0.2, 0.6]])
    done = np.zeros(nf, dtype=bool)
    for f in np.flatnonzero(np.asarray(fine.support)):
        xf = refnum.map_points(Vf, Ef, int(f), cen)
        nrm = np.cross(Vf[:, Ef[1, f]] - Vf[:, Ef[0, f]], Vf[:, Ef[2, f]] - Vf[:, Ef[0, f]])
        nrm /= np.linalg.norm(nrm)
        ce, _ = sg.locate_points(Vc, Ec, xf, nrm)
        c = int(ce[0])
        if not coarse.support[c]:
            continue
        if shape == "p0_discontinuous":
            P[l2gf[f, 0], l2gc[c, 0]] = 1.0
            continue
        if shape == "p1_discontinuous":
            xs = refnum.map_points(Vf, Ef, int(f), corners)
            _, cl = sg.locate_points(Vc, Ec[:, [c]], xs)
            vals = sg.ref_basis(coarse, c, cl)  # (1,3,3)
            for i in range(3):
                if multf[f, i] == 0:
                    continue
                for j in range(3):
                    if multc[c, j] == 0:
                        continue  # artificial slot of a vertex without dof: it is mapped onto another dof of the element
                    P[l2gf[f, i], l2gc[c, j]] = vals[0, j, i]
            continue
        # rwg: coefficient of fine function i = flux of the coarse function through fine edge i in the fine "+" direction
        locs = {0: np.array([0.0, 0.0]), 1: np.array([1.0, 0.0]), 2: np.array([0.0, 1.0])}
        for i, (a, b) in enumerate([(0, 1), (2, 0), (1, 2)]):
            if multf[f, i] == 0 or done[l2gf[f, i]]:
                continue
            lp = (0.5 * (locs[a] + locs[b]))[:, None]
            x = refnum.map_points(Vf, Ef, int(f), lp)
            _, cl = sg.locate_points(Vc, Ec[:, [c]], x)
            cv = sg.ref_basis(coarse, c, cl)  # (3,3,1)
            fv = sg.ref_basis(fine, int(f), lp)  # includes multiplier
            ta = Vf[:, Ef[b, f]] - Vf[:, Ef[a, f]]
            nu = np.cross(ta / np.linalg.norm(ta), nrm)
            ffl = float(nu @ fv[:, i, 0])  # = +-1
            for j in range(3):
                P[l2gf[f, i], l2gc[c, j]] += float(nu @ cv[:, j, 0]) / ffl
            done[l2gf[f, i]] = True
    # verify the expansion: sum_j P[j,c] fine_j == coarse_c pointwise
    worst = 0.0
    rng = np.random.default_rng(0)
    cc = rng.standard_normal(nc)
    cf = P @ cc
    for f in np.flatnonzero(np.asarray(fine.support)):
        x = refnum.map_points(Vf, Ef, int(f), inner)
        nrm = np.cross(Vf[:, Ef[1, f]] - Vf[:, Ef[0, f]], Vf[:, Ef[2, f]] - Vf[:, Ef[0, f]])
        nrm /= np.linalg.norm(nrm)
        ce, cl = sg.locate_points(Vc, Ec, x, nrm)
        vf = sg.eval_function(fine, cf, int(f), inner)
        vc = np.stack([sg.eval_function(coarse, cc, int(ce[q]), cl[:, [q]])[:, 0] for q in range(3)], axis=1)
        worst = max(worst, float(np.max(np.abs(vf - vc))) / max(1.0, float(np.max(np.abs(vc)))))
    return P, worst


def check_prolongation(desc):
    import bempp_cl.api

    g = mg.make_grid(desc["mesh"])
    kindname = desc["kind"]
    kind, deg = sg.KINDS[kindname]
    how = desc["how"]
    if how == "refine":
        gf = g.refine()
        if desc.get("levels", 1) == 2:
            gf = gf.refine()
    else:
        gf = g.barycentric_refinement
    kw = {}
    if kindname in ("P1", "RWG") and desc.get("ibd"):
        kw["include_boundary_dofs"] = True
    seg_label = "whole"
    if desc.get("seg") is not None:
        # spaces on a segment of a multi-domain grid: the refined grid inherits the domain indices, so the fine segment space contains the coarse one
        present = sorted(set(int(x) for x in np.asarray(g.domain_indices)))
        if len(present) > 1:
            kw["segments"] = [present[int(desc["seg"]) % len(present)]]
            seg_label = "segment"
            if kindname == "RWG" and not sg.support_is_manifold(g, {"segments": kw["segments"]}):
                return {"nontrivial": False, "labels": ["skipped"]}
    if len(sg.model_dof_entities(g, kindname, dict(kw))) == 0:
        return {"nontrivial": False, "labels": ["skipped"]}  # options select no entity (recorded finding D14 of C09)
    coarse = bempp_cl.api.function_space(g, kind, deg, **kw)
    fine = bempp_cl.api.function_space(gf, kind, deg, **kw)
    P, resid = _prolongation(coarse, fine)
    Vg = np.asarray(g.vertices)
    hmin = float(np.sqrt(np.min(np.asarray(g.volumes))))
    cond = float(np.max(np.abs(Vg))) / max(hmin, 1e-300)  # small elements far from the origin: coordinates carry |x|/h eps relative error
    if resid > 1e-11 + 4e-15 * cond * 4 ** desc.get("levels", 1):
        _fail(f"nested/{kindname}/{how}", f"coarse {kindname} functions are not in the span of the fine space on {how} (expansion residual {resid:.2e}): "
              "refined grid numbering/orientation is inconsistent")
    if desc.get("nested_only"):
        # cheap part only (no operator assembly): the coarse functions are reproduced exactly by the fine space through P
        return {"nontrivial": True, "labels": ["prolongation_nested", how, kindname, f"levels{desc.get('levels', 1)}", "prolongation_" + seg_label],
                "measured": {"expansion_residual": resid}}
    fam, op = desc["fam"], desc["op"]
    k = og.wavenumber(desc["k"]) if desc.get("k") is not None else None
    if k is not None:
        # wavenumbers are drawn as k*D (D = grid diameter): the relation is quadrature-limited, so the mesh must resolve the wave
        D = float(np.linalg.norm(g.bounding_box[:, 1] - g.bounding_box[:, 0]))
        k = k / D
    errs = []
    ladder = desc.get("ladder", [[4, 4], [8, 6], [14, 10]])
    for reg, sing in ladder:
        par = og.make_params(reg, sing)
        if fam == "maxwell":
            sncc = bempp_cl.api.function_space(g, "SNC", 0, **kw)
            sncf = bempp_cl.api.function_space(gf, "SNC", 0, **kw)
            Ac = og.dense(og.boundary_operator(fam, op, coarse, coarse, sncc, k, parameters=par))
            Af = og.dense(og.boundary_operator(fam, op, fine, fine, sncf, k, parameters=par))
        else:
            Ac = og.dense(og.boundary_operator(fam, op, coarse, coarse, coarse, k, parameters=par))
            Af = og.dense(og.boundary_operator(fam, op, fine, fine, fine, k, parameters=par))
        errs.append(og.relerr(P.T @ Af @ P, Ac, og.entry_floor(g, fam, op)))  # e.g. the double layer vanishes identically on a flat screen
    top_thr = desc.get("top_thr", 2e-5 if how == "bary" else 2e-6)
    sig = f"prolongation/{fam}_{op}/{kindname}/{how}"
    if errs[-1] > top_thr and errs[-1] > 0.05 * errs[0]:
        _fail(sig, f"||P^T A_fine P - A_coarse|| = {['%.1e' % e for e in errs]} on ladder {ladder}; top rung above {top_thr:.0e}")
    if errs[0] > 1e-9 and errs[-1] > 0.2 * errs[0]:
        _fail(sig + "/nodecay", f"error does not decay with the quadrature orders: {['%.1e' % e for e in errs]}")
    return {"nontrivial": True, "labels": ["prolongation", how, kindname, f"{fam}_{op}", f"levels{desc.get('levels', 1)}", "prolongation_" + seg_label],
            "measured": {"errors": errs, "expansion_residual": resid}}


CHECKS = {"congruence": check_congruence, "prolongation": check_prolongation}

_KINDS_BY_SHAPE = {"p0": ["DP0"], "p1": ["DP1", "P1"], "rwg": ["RWG"], "snc": ["SNC"]}

_COMBOS_QUICK = [
    ("laplace", "V", "p0", "p0"), ("laplace", "V", "p1", "p1"), ("laplace", "K", "p0", "p1"), ("laplace", "Kp", "p1", "p0"),
    ("laplace", "W", "p1", "p1"), ("helmholtz", "V", "p1", "p0"), ("helmholtz", "K", "p1", "p1"), ("helmholtz", "Kp", "p0", "p0"),
    ("helmholtz", "W", "p1", "p1"), ("modified", "V", "p0", "p1"), ("modified", "W", "p1", "p1"), ("maxwell", "E", "snc", "rwg"),
    ("maxwell", "M", "snc", "rwg"),
]


def _all_combos():
    out = []
    for fam in ("laplace", "helmholtz", "modified"):
        for op in ("V", "K", "Kp"):
            for t in ("p0", "p1"):
                for d in ("p0", "p1"):
                    out.append((fam, op, t, d))
        out.append((fam, "W", "p1", "p1"))
    out += [("maxwell", "E", "snc", "rwg"), ("maxwell", "M", "snc", "rwg")]
    return out


def shards(tier, seed=1):
    from vlib.pbt import rot

    out = []
    if tier == "quick":
        # one shard per assembler code path of core/numba_kernels.py (default_scalar, the three hypersingular assemblers, Maxwell E and M,
        # the sparse identity and Laplace-Beltrami kernels); inside the default_scalar family the kernel/shape-set combination rotates
        # with the seed. The runner packs the shards into few interpreters.
        scal = [c for c in _all_combos() if c[1] != "W" and c[0] != "maxwell"]
        combos = rot(scal, seed, 2)
        combos += [("laplace", "W", "p1", "p1"), ("helmholtz", "W", "p1", "p1"), ("modified", "W", "p1", "p1"),
                   ("maxwell", "E", "snc", "rwg"), ("maxwell", "M", "snc", "rwg"),
                   ("sparse", "I") + rot([("p0", "p0"), ("p1", "p1"), ("p0", "p1"), ("p1", "p0"), ("snc", "rwg")], seed, 1)[0],
                   ("sparse", "LB", "p1", "p1")]
        for fam, op, t, d in combos:
            out.append({"check": "congruence", "fam": fam, "op": op, "tshape": t, "dshape": d, "examples": 30, "budget_s": 150})
        fam, op, kinds = rot([("laplace", "V", ["DP0"]), ("laplace", "W", ["P1"]), ("laplace", "K", ["P1"])], seed, 1)[0]
        out.append({"check": "prolongation", "fam": fam, "op": op, "kinds": kinds, "examples": 4, "budget_s": 240, "light": True})
        out.append({"check": "prolongation", "fam": "laplace", "op": "V", "kinds": ["DP0", "P1", "RWG"], "examples": 40, "budget_s": 120, "nested_only": True})
    else:
        for fam, op, t, d in _all_combos() + [("sparse", "I", "p0", "p0"), ("sparse", "I", "p1", "p1"), ("sparse", "I", "p0", "p1"),
                                             ("sparse", "I", "p1", "p0"), ("sparse", "I", "snc", "rwg"), ("sparse", "LB", "p1", "p1")]:
            out.append({"check": "congruence", "fam": fam, "op": op, "tshape": t, "dshape": d, "examples": 60, "budget_s": 1800})
        for fam, op, kinds in [("laplace", "V", ["DP0"]), ("laplace", "V", ["P1"]), ("laplace", "K", ["P1"]), ("laplace", "W", ["P1"]),
                               ("helmholtz", "V", ["DP0"]), ("helmholtz", "W", ["P1"]), ("maxwell", "E", ["RWG"]), ("maxwell", "M", ["RWG"])]:
            out.append({"check": "prolongation", "fam": fam, "op": op, "kinds": kinds, "examples": 14, "budget_s": 2400})
        out.append({"check": "prolongation", "fam": "laplace", "op": "V", "kinds": ["DP0", "P1", "RWG"], "examples": 400, "budget_s": 1200, "nested_only": True})
    return out


def strategy(spec):
    from hypothesis import strategies as st

    fam, op = spec["fam"], spec["op"]

    def kstrat():
        if fam in ("laplace", "sparse"):
            return st.none()
        if fam == "modified":
            return st.sampled_from([[0.5, 0], [2.0, 0], [7.0, 0]])
        return st.sampled_from([[1.0, 0], [2.5, 1.0], [0.3, -0.2], [4.0, 0], [-1.5, 0.5], [3.0, 2.0]])

    if spec["check"] == "congruence":
        tk, dk = _KINDS_BY_SHAPE[spec["tshape"]], _KINDS_BY_SHAPE[spec["dshape"]]
        edge = spec["tshape"] in ("rwg", "snc")

        @st.composite
        def s(draw):
            mesh = draw(mg.mesh_descs("any" if not edge else "closed", max_elems=36, domains=True, max_edits=3, allow_refine=False)) \
                if not edge or draw(st.booleans()) else draw(mg.mesh_descs("open", max_elems=36, domains=True, max_edits=3, allow_refine=False, bases=["sheet", "strip", "fan"]))
            if edge and mesh.get("domains", {}).get("mode") == "scatter":
                mesh["domains"]["mode"] = "patch"
            tests = [draw(sg.space_descs(tk)) for _ in range(draw(st.integers(1, 2)))]
            trials = [draw(sg.space_descs(dk)) for _ in range(draw(st.integers(1, 2)))]
            return {"mesh": mesh, "fam": fam, "op": op, "k": draw(kstrat()), "tshape": spec["tshape"], "dshape": spec["dshape"],
                    "orders": [draw(st.integers(1, 6)), draw(st.integers(2, 5))], "tests": tests, "trials": trials}
        return s()

    @st.composite
    def p(draw):
        kind = draw(st.sampled_from(spec["kinds"]))
        closed = draw(st.booleans())
        mesh = draw(mg.mesh_descs("closed" if closed else "open", max_elems=16, cls="regular", max_edits=2, allow_refine=False,
                                  bases=(["tetra", "octa", "cube", "prism"] if closed else ["sheet", "strip", "fan"])))
        how = draw(st.sampled_from(["refine", "refine", "bary"]))
        if kind == "P1" and how == "bary":
            how = "refine"
        kk = draw(kstrat())
        if kk is not None and fam != "modified":
            kk = draw(st.sampled_from([[1.0, 0], [2.5, 1.0], [0.3, -0.2], [3.0, 0], [-1.5, 0.5]]))
        elif kk is not None:
            kk = draw(st.sampled_from([[0.5, 0], [2.0, 0], [3.0, 0]]))
        d = {"mesh": mesh, "kind": kind, "how": how, "fam": fam, "op": op, "k": kk, "ibd": (not closed)}
        if draw(st.booleans()):
            d["mesh"]["domains"] = {"mode": "patch", "n": 2, "seed": draw(st.integers(0, 99)), "values": [0, 3, 7, 12]}
            d["seg"] = draw(st.integers(0, 1))
            d["ibd"] = draw(st.booleans()) if kind != "RWG" else False
        if how == "refine" and mesh and draw(st.integers(0, 3)) == 0:
            d["levels"] = 2
            d["mesh"]["max_elems"] = 8
        if spec.get("nested_only"):
            d["nested_only"] = True
        return d
    return p()


def required_labels(tier):
    return ["congruence", "proper_support", "prolongation"] if tier == "quick" else [
        "congruence", "proper_support", "non_prefix_support", "different_supports", "prolongation", "refine", "bary"]



"""Shard worker: ``python -m vlib.worker <PROP> <spec.json> <out.json>`` (fresh interpreter)."""

import importlib
import json
import os
import sys
import time
import traceback


def _warmup():
    """Import bempp_cl and build one tiny grid (compiles the jitclasses)."""
    import numpy as np
    import bempp_cl.api

    bempp_cl.api.Grid(np.array([[0.0, 1, 0], [0, 0, 1], [0, 0, 0]]), np.array([[0], [1], [2]], dtype="uint32"))


def _run_one(mod, spec, pbt, t_start):
    """Run one shard spec (after the process-wide warm-up); returns its result dict."""
    t0 = time.time()
    out = {"spec": spec, "status": "ok"}
    try:
        stats = pbt.Stats()
        if hasattr(mod, "setup"):
            mod.setup(spec)
        out["setup_s"] = time.time() - t_start
        # the budget clock starts after import/JIT warm-up
        deadline = time.time() + float(spec.get("budget_s", 1e9))
        if "replay" in spec:
            for item in spec["replay"]:
                fn = mod.CHECKS[item["check"]]
                pbt.run_cases(item["check"], fn, [item["descriptor"]], stats)
                for f in stats.failures:
                    f.setdefault("replay_source", item.get("source"))
        else:
            name = spec["check"]
            fn = mod.CHECKS[name]
            if hasattr(mod, "cases") and mod.cases(spec) is not None:
                pbt.run_cases(name, fn, mod.cases(spec), stats, deadline)
                out["enumerated"] = True
            else:
                pbt.run_search(
                    name,
                    fn,
                    mod.strategy(spec),
                    stats,
                    seed=int(spec["seed"]),
                    max_examples=int(spec["examples"]),
                    deadline=deadline,
                    shrink_seconds=float(spec.get("shrink_s", 60)),
                )
        if hasattr(mod, "finish"):
            extra = mod.finish(spec)
            if extra:
                out["extra"] = extra
        out.update(stats.as_dict())
    except BaseException as exc:  # noqa: BLE001
        out["status"] = "harness_error"
        out["error"] = "".join(traceback.format_exception(type(exc), exc, exc.__traceback__))[-4000:]
    out["wall_s"] = time.time() - t0
    return out


def main():
    prop, spec_file, out_file = sys.argv[1:4]
    spec = json.load(open(spec_file))
    t0 = time.time()
    multi = spec.get("multi")
    out = {"spec": spec, "status": "ok"}
    try:
        from vlib import pbt

        mod = importlib.import_module("props." + prop.lower())
        if not getattr(mod, "NO_BEMPP_WARMUP", False):
            _warmup()
        if multi is None:
            out = _run_one(mod, spec, pbt, t0)
        else:
            # several shard specs run one after the other in this interpreter (they share the import and the JIT-compiled code)
            out["results"] = []
            for sp in multi:
                out["results"].append(_run_one(mod, sp, pbt, time.time()))
                with open(out_file + ".partial", "w") as f:
                    json.dump(out, f, default=str)
    except BaseException as exc:  # noqa: BLE001
        out["status"] = "harness_error"
        out["error"] = "".join(traceback.format_exception(type(exc), exc, exc.__traceback__))[-4000:]
    out["wall_s"] = time.time() - t0
    with open(out_file, "w") as f:
        json.dump(out, f, default=str)
    # bempp_cl creates a temp dir at import; remove it
    try:
        import shutil
        import bempp_cl.api

        shutil.rmtree(bempp_cl.api.TMP_PATH, ignore_errors=True)
    except Exception:  # noqa: BLE001
        pass
    sys.stdout.flush()
    os._exit(0)


if __name__ == "__main__":
    main()

"""Space descriptors, builders, harness-side models and reference evaluation of spaces."""

import numpy as np

from . import meshgen as mg
from .pbt import Rejected

KINDS = {
    "DP0": ("DP", 0),
    "DP1": ("DP", 1),
    "P1": ("P", 1),
    "RWG": ("RWG", 0),
    "SNC": ("SNC", 0),
    "DUAL0": ("DUAL", 0),
    "DUAL1": ("DUAL", 1),
    "BC": ("BC", 0),
    "RBC": ("RBC", 0),
}
EDGE_KINDS = ("RWG", "SNC", "BC", "RBC")
BARY_KINDS = ("DUAL0", "DUAL1", "BC", "RBC")
_EDGE_LOCAL = [(0, 1), (2, 0), (1, 2)]


def space_kwargs(grid, sd):
    """Translate a space descriptor into function_space keyword arguments."""
    kw = {}
    sel = sd.get("sel")
    doms = sorted(set(int(x) for x in grid.domain_indices))
    if sel:
        if sel[0] == "segments":
            kw["segments"] = [doms[i % len(doms)] for i in sel[1]]
        elif sel[0] == "support":
            n = grid.number_of_elements
            mask = sel[1]
            elems = [i for i in range(n) if (mask >> (i % 60)) & 1]
            if not elems:
                elems = [0]
            kw["support_elements"] = np.array(elems, dtype="uint32")
    if sd.get("ibd") is not None:
        kw["include_boundary_dofs"] = bool(sd["ibd"])
    if sd.get("trunc") is not None:
        kw["truncate_at_segment_edge"] = bool(sd["trunc"])
    if sd.get("swapped"):
        kw["swapped_normals"] = [doms[i % len(doms)] for i in sd["swapped"]]
    return kw


def requested_support(grid, kw):
    n = grid.number_of_elements
    if "segments" in kw:
        return np.isin(np.asarray(grid.domain_indices), kw["segments"])
    if "support_elements" in kw:
        s = np.zeros(n, dtype=bool)
        s[np.asarray(kw["support_elements"], dtype=int)] = True
        return s
    return np.ones(n, dtype=bool)


def effective_options(kind, kw):
    """Defaults as documented in the space constructors."""
    ibd = kw.get("include_boundary_dofs")
    tr = kw.get("truncate_at_segment_edge")
    if kind in ("P1", "RWG", "SNC", "BC", "RBC"):
        ibd = False if ibd is None else ibd
        tr = True if tr is None else tr
    elif kind == "DUAL0":
        ibd = False if ibd is None else ibd
        tr = False if tr is None else tr
    elif kind == "DUAL1":
        tr = False if tr is None else tr
    return ibd, tr


def build_space(grid, sd):
    import bempp_cl.api

    kind, deg = KINDS[sd["kind"]]
    kw = space_kwargs(grid, sd)
    return bempp_cl.api.function_space(grid, kind, deg, **kw), kw


# ------------------------------------------------------------------ dof-count model
def model_dof_entities(grid, kind, kw):
    """Entities (as a set) selected by the options, from a brute-force model."""
    E = np.asarray(grid.elements).astype(int)
    req = requested_support(grid, kw)
    ibd, tr = effective_options(kind, kw)
    topo = mg.topology(E)
    if kind in ("DP0", "DUAL1"):
        return {("elem", int(i)) for i in np.flatnonzero(req)}
    if kind == "DP1":
        return {("elemdof", int(i), k) for i in np.flatnonzero(req) for k in range(3)}
    if kind in ("P1", "DUAL0"):
        out = set()
        for v, elems in topo["vert_elems"].items():
            sup = [e for e in elems if req[e]]
            if not sup:
                continue
            interior = len(sup) == len(elems) and v not in topo["boundary_verts"]
            if ibd or interior:
                out.add(("vertex", v))
        return out
    # edge spaces
    out = set()
    for ed, elems in topo["edges"].items():
        sup = [e for e in elems if req[e]]
        if len(sup) == 2:
            out.add(("edge",) + ed)
        elif len(sup) == 1 and ibd:
            out.add(("edge",) + ed)
    return out


def support_is_manifold(grid, kw):
    E = np.asarray(grid.elements)
    return mg.is_manifold(E, requested_support(grid, kw))


# ------------------------------------------------------------------ reference evaluation
def ref_basis(space, elem, pts):
    """Reference basis values on element `elem` of space.grid at local points pts (2,Q).

    Uses only definition data of the space (shapeset identifier, identifier, multipliers,
    normal multipliers) and the harness's own formulas. Returns (codim, nshape, Q).
    """
    g = space.grid
    V = np.asarray(g.vertices)
    ev = np.asarray(g.elements)[:, elem].astype(int)
    ident = space.identifier
    shp = space.shapeset.identifier
    mult = np.asarray(space.local_multipliers)[elem].astype(float)
    q = pts.shape[1]
    if shp == "p0_discontinuous":
        return np.ones((1, 1, q)) * mult[0]
    if shp == "p1_discontinuous":
        out = np.empty((1, 3, q))
        out[0, 0] = 1 - pts[0] - pts[1]
        out[0, 1] = pts[0]
        out[0, 2] = pts[1]
        return out * mult[None, :, None]
    # rwg0 shapeset: identifier tells RWG or SNC
    from .refnum import rwg_physical

    f = rwg_physical(V, ev, pts)  # l/(2A) (x - p)
    f = f * mult[None, :, None]
    if ident.startswith("snc0"):
        n = np.cross(V[:, ev[1]] - V[:, ev[0]], V[:, ev[2]] - V[:, ev[0]])
        n = n / np.linalg.norm(n) * float(np.asarray(space.normal_multipliers)[elem])
        out = np.empty_like(f)
        for i in range(3):
            out[:, i, :] = np.cross(n[None, :], f[:, i, :].T).T
        return out
    return f


def grid_coeffs(space, c):
    """Coefficients on the space's grid dofs from global coefficients."""
    return space.dof_transformation @ np.asarray(c)


def eval_function(space, c, elem, pts, gc=None):
    """Value of sum_i c_i phi_i on element elem of space.grid at local points (reference evaluation)."""
    if gc is None:
        gc = grid_coeffs(space, c)
    if not space.support[elem]:
        cod = space.codomain_dimension
        return np.zeros((cod, pts.shape[1]), dtype=gc.dtype)
    vals = ref_basis(space, elem, pts)
    loc = gc[np.asarray(space.local2global)[elem].astype(int)]
    return np.einsum("ijk,j->ik", vals, loc)


# ------------------------------------------------------------------ strategies
def space_descs(kinds, segments=True, options=True, swapped=False):
    from hypothesis import strategies as st

    @st.composite
    def s(draw):
        kind = draw(st.sampled_from(list(kinds)))
        sd = {"kind": kind}
        if segments:
            mode = draw(st.sampled_from(["whole", "segments", "segments", "support"]))
            if mode == "segments":
                sd["sel"] = ["segments", draw(st.lists(st.integers(0, 3), min_size=1, max_size=2))]
            elif mode == "support":
                sd["sel"] = ["support", draw(st.integers(1, 2**60 - 1))]
        if options and kind not in ("DP0", "DP1"):
            if kind != "DUAL1":
                sd["ibd"] = draw(st.sampled_from([None, False, True]))
            sd["trunc"] = draw(st.sampled_from([None, False, True]))
        if swapped:
            sd["swapped"] = draw(st.lists(st.integers(0, 3), min_size=0, max_size=2))
        return sd

    return s()


# ------------------------------------------------------------------ geometric location
class AmbiguousLocation(ValueError):
    """A point lies strictly inside two different (overlapping, coplanar) elements: geometric location cannot decide."""


def locate_points(Vc, Ec, pts, hint_normal=None, strict=False):
    """For physical points (3,Q) find for each the coarse element containing it and its local coordinates.

    Purely geometric (independent of any child numbering). Returns (elem (Q,), local (2,Q)).
    Raises ValueError if a point lies in no element.
    """
    p0 = Vc[:, Ec[0]].T
    e1 = Vc[:, Ec[1]].T - p0
    e2 = Vc[:, Ec[2]].T - p0
    n = np.cross(e1, e2)
    nn = np.linalg.norm(n, axis=1)
    a11 = np.einsum("ij,ij->i", e1, e1)
    a12 = np.einsum("ij,ij->i", e1, e2)
    a22 = np.einsum("ij,ij->i", e2, e2)
    det = a11 * a22 - a12 * a12
    h = np.sqrt(nn)
    out_e = np.empty(pts.shape[1], dtype=int)
    out_l = np.empty((2, pts.shape[1]))
    for q in range(pts.shape[1]):
        d = pts[:, q][None, :] - p0
        dist = np.abs(np.einsum("ij,ij->i", d, n)) / nn
        b1 = np.einsum("ij,ij->i", d, e1)
        b2 = np.einsum("ij,ij->i", d, e2)
        s = (a22 * b1 - a12 * b2) / det
        t = (a11 * b2 - a12 * b1) / det
        inside = (s > -1e-9) & (t > -1e-9) & (s + t < 1 + 1e-9) & (dist < 1e-8 * h)
        if hint_normal is not None:
            inside &= np.abs(n @ hint_normal) / nn > 0.99999
        idx = np.flatnonzero(inside)
        if len(idx) == 0:
            raise ValueError("point lies in no coarse element")
        if strict and len(idx) > 1:
            strictly = [i for i in idx if s[i] > 1e-7 and t[i] > 1e-7 and s[i] + t[i] < 1 - 1e-7]
            if len(strictly) > 1:
                raise AmbiguousLocation(f"point lies strictly inside elements {strictly[:3]} (folded / overlapping mesh)")
        out_e[q] = idx[0]
        out_l[:, q] = (s[idx[0]], t[idx[0]])
    return out_e, out_l

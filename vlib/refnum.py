"""Independent reference numerics used as oracles (never call the routine they judge)."""

import math

import numpy as np

from .pbt import HarnessError

M_INV_4PI = 1.0 / (4.0 * math.pi)


# ---------------------------------------------------------------- quadrature
def monomial_integral_triangle(a, b):
    """Exact integral of x^a y^b over the reference triangle {x,y>=0, x+y<=1}."""
    return math.factorial(a) * math.factorial(b) / math.factorial(a + b + 2)


def tri_rule(n):
    """Collapsed tensor Gauss-Legendre rule on the reference triangle.

    Exact for total degree <= 2n-2. Returns points (2,N), weights (N,) summing to 1/2.
    """
    x, w = np.polynomial.legendre.leggauss(n)
    x = 0.5 * (x + 1.0)
    w = 0.5 * w
    u, v = np.meshgrid(x, x, indexing="ij")
    wu, wv = np.meshgrid(w, w, indexing="ij")
    px = u.ravel()
    py = (v * (1.0 - u)).ravel()
    ww = (wu * wv * (1.0 - u)).ravel()
    return np.vstack([px, py]), ww


def gauss01(n):
    x, w = np.polynomial.legendre.leggauss(n)
    return 0.5 * (x + 1.0), 0.5 * w


# ---------------------------------------------------------------- kernels
def green_laplace(x, y):
    """x (3,N), y (3,M) -> (N,M)."""
    d = x[:, :, None] - y[:, None, :]
    r = np.sqrt(np.sum(d * d, axis=0))
    return M_INV_4PI / r


def green_helmholtz(x, y, k):
    d = x[:, :, None] - y[:, None, :]
    r = np.sqrt(np.sum(d * d, axis=0))
    return M_INV_4PI * np.exp(1j * k * r) / r


def green_modified(x, y, omega):
    d = x[:, :, None] - y[:, None, :]
    r = np.sqrt(np.sum(d * d, axis=0))
    return M_INV_4PI * np.exp(-omega * r) / r


def green_helmholtz_grad_y(x, y, k):
    """Gradient with respect to y of exp(ikr)/(4 pi r); returns (3,N,M). k=0 gives Laplace."""
    d = x[:, :, None] - y[:, None, :]  # x - y
    r = np.sqrt(np.sum(d * d, axis=0))
    g = M_INV_4PI * np.exp(1j * k * r) / r
    # d/dy g = g * (ik - 1/r) * d r/dy ; dr/dy = -(x-y)/r
    return g * (1j * k - 1.0 / r) * (-d / r)


# ---------------------------------------------------------------- geometry helpers
def tri_geometry(vertices, elements):
    """Per-element geometry from definitions. vertices (3,N), elements (3,M)."""
    v0 = vertices[:, elements[0]]
    v1 = vertices[:, elements[1]]
    v2 = vertices[:, elements[2]]
    e1 = v1 - v0
    e2 = v2 - v0
    cr = np.cross(e1.T, e2.T).T
    ie = np.linalg.norm(cr, axis=0)
    normals = cr / ie
    return {
        "v0": v0,
        "e1": e1,
        "e2": e2,
        "int_elem": ie,
        "area": 0.5 * ie,
        "normals": normals,
        "centroids": (v0 + v1 + v2) / 3.0,
    }


def map_points(vertices, elements, elem, pts):
    """Map local points (2,Q) on element `elem` to physical (3,Q)."""
    v0 = vertices[:, elements[0, elem]]
    v1 = vertices[:, elements[1, elem]]
    v2 = vertices[:, elements[2, elem]]
    return v0[:, None] + np.outer(v1 - v0, pts[0]) + np.outer(v2 - v0, pts[1])


# ---------------------------------------------------------------- reference shape functions
def shape_p0(pts):
    return np.ones((1, 1, pts.shape[1]))


def shape_p1(pts):
    out = np.empty((1, 3, pts.shape[1]))
    out[0, 0] = 1 - pts[0] - pts[1]
    out[0, 1] = pts[0]
    out[0, 2] = pts[1]
    return out


def rwg_physical(vertices, elem_vertices, pts):
    """Un-signed element-wise RWG (Raviart-Thomas) functions on a physical triangle.

    elem_vertices: 3 vertex indices; returns (3, 3, Q): component, local edge, point.
    Local edge i is opposite... bempp convention: edge 0 = (v0,v1), edge 1 = (v2,v0), edge 2 = (v1,v2);
    function i = l_i/(2A) (x - p_i) with p_i the vertex opposite to edge i: p_0=v2, p_1=v1, p_2=v0.
    The un-signed, un-scaled version (multiplier carries sign; bempp's RWG includes edge length):
      f_i(x) = l_i / (2A) (x - p_i)
    """
    v = [vertices[:, j] for j in elem_vertices]
    x = v[0][:, None] + np.outer(v[1] - v[0], pts[0]) + np.outer(v[2] - v[0], pts[1])
    area2 = np.linalg.norm(np.cross(v[1] - v[0], v[2] - v[0]))
    edges = [(0, 1), (2, 0), (1, 2)]
    opp = [2, 1, 0]
    out = np.empty((3, 3, pts.shape[1]))
    for i in range(3):
        a, b = edges[i]
        l = np.linalg.norm(v[a] - v[b])
        out[:, i, :] = l / area2 * (x - v[opp[i]][:, None])
    return out


def self_test():
    """Oracle self-test; raises HarnessError on failure."""
    for n in (2, 5, 9):
        p, w = tri_rule(n)
        for a in range(0, 2 * n - 1):
            for b in range(0, 2 * n - 1 - a):
                val = np.sum(w * p[0] ** a * p[1] ** b)
                ex = monomial_integral_triangle(a, b)
                if abs(val - ex) > 1e-14 * max(1.0, abs(ex)) + 1e-15:
                    raise HarnessError(f"tri_rule self-test failed n={n} a={a} b={b}: {val} vs {ex}")
    # reference RWG has unit normal flux through its own edge
    V = np.array([[0.0, 1.3, 0.2], [0.0, 0.1, 0.9], [0.0, 0.3, -0.2]])
    ev = [0, 1, 2]
    edges = [(0, 1), (2, 0), (1, 2)]
    t = np.linspace(0.1, 0.9, 5)
    n = np.cross(V[:, 1] - V[:, 0], V[:, 2] - V[:, 0])
    n /= np.linalg.norm(n)
    loc = {0: np.array([0.0, 0.0]), 1: np.array([1.0, 0.0]), 2: np.array([0.0, 1.0])}
    for i, (a, b) in enumerate(edges):
        pts = np.array([loc[a] + s * (loc[b] - loc[a]) for s in t]).T
        f = rwg_physical(V, ev, pts)
        tang = V[:, b] - V[:, a]
        l = np.linalg.norm(tang)
        tang /= l
        nu = np.cross(tang, n)  # outward conormal for edge (a,b) traversed ccw
        for j in range(3):
            flux = nu @ f[:, j, :]
            want = 1.0 if j == i else 0.0
            if np.max(np.abs(flux - want)) > 1e-12:
                raise HarnessError(f"reference RWG flux self-test failed edge {i} fn {j}: {flux}")


# ---------------------------------------------------------------- potential of a flat triangle (closed form)
def tri_potential(x, a, b, c):
    """Integral over the flat triangle (a,b,c) of 1/|x-y| dS_y for points x (3,N); closed form.

    Phi = sum_i d_i ln((r1+s1)/(r0+s0)) - |h| |Omega|  (Wilton et al. 1984), Omega the solid angle.
    """
    a, b, c = (np.asarray(v, dtype=float) for v in (a, b, c))
    x = np.asarray(x, dtype=float)
    n = np.cross(b - a, c - a)
    n = n / np.linalg.norm(n)
    h = n @ (x - a[:, None])
    xp = x - np.outer(n, h)
    verts = [a, b, c]
    r = [v[:, None] - x for v in verts]
    rn = [np.linalg.norm(v, axis=0) for v in r]
    num = np.sum(r[0] * np.cross(r[1].T, r[2].T).T, axis=0)
    den = (
        rn[0] * rn[1] * rn[2]
        + np.sum(r[0] * r[1], axis=0) * rn[2]
        + np.sum(r[0] * r[2], axis=0) * rn[1]
        + np.sum(r[1] * r[2], axis=0) * rn[0]
    )
    omega = 2.0 * np.arctan2(num, den)
    total = -np.abs(h) * np.abs(omega)
    for i in range(3):
        p = verts[i]
        q = verts[(i + 1) % 3]
        e = q - p
        t = e / np.linalg.norm(e)
        m = np.cross(t, n)
        d = m @ (p[:, None] - xp)
        s0 = t @ (p[:, None] - xp)
        s1 = t @ (q[:, None] - xp)
        r0 = np.sqrt(s0 * s0 + d * d + h * h)
        r1 = np.sqrt(s1 * s1 + d * d + h * h)
        with np.errstate(divide="ignore", invalid="ignore"):
            lg_a = np.log((r1 + s1) / (r0 + s0))
            lg_b = np.log((r0 - s0) / (r1 - s1))
        # both forms are algebraically equal; pick the numerically safe one
        use_a = (s0 + s1) >= 0
        lg = np.where(use_a, lg_a, lg_b)
        lg = np.where(np.abs(d) + np.abs(h) > 0, lg, 0.0)
        total = total + np.where(d != 0, d * lg, 0.0)
    return total


def laplace_pair_reference(tri_x, tri_y, n_outer=24, levels=4):
    """Reference of int_{Tx} int_{Ty} 1/(4 pi |x-y|): closed-form inner potential, composite outer rule.

    tri_x, tri_y: arrays of shape (3 vertices, 3 coords).
    """
    p, w = tri_rule(n_outer)
    a, b, c = (np.asarray(v, dtype=float) for v in tri_y)
    tris = [tuple(np.asarray(v, dtype=float) for v in tri_x)]
    for _ in range(levels):
        new = []
        for v0, v1, v2 in tris:
            m01, m12, m20 = 0.5 * (v0 + v1), 0.5 * (v1 + v2), 0.5 * (v2 + v0)
            new += [(v0, m01, m20), (m01, v1, m12), (m20, m12, v2), (m01, m12, m20)]
        tris = new
    total = 0.0
    for v0, v1, v2 in tris:
        area2 = np.linalg.norm(np.cross(v1 - v0, v2 - v0))
        pts = v0[:, None] + np.outer(v1 - v0, p[0]) + np.outer(v2 - v0, p[1])
        total += area2 * np.sum(w * tri_potential(pts, a, b, c))
    return M_INV_4PI * total


def laplace_pair_reference_rich(tri_x, tri_y, n_outer=20, level=3):
    """Richardson-extrapolated reference (the composite rule's error is O(h^2) from the d*log|d| edge terms)."""
    i0 = laplace_pair_reference(tri_x, tri_y, n_outer, level)
    i1 = laplace_pair_reference(tri_x, tri_y, n_outer, level + 1)
    return (4.0 * i1 - i0) / 3.0, abs(i1 - i0)

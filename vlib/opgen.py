"""Operator descriptors and builders shared by the operator-level checks."""

import copy

import numpy as np


def make_params(regular=None, singular=None, **fmm):
    import bempp_cl.api

    p = bempp_cl.api.utils.parameters.DefaultParameters()
    if regular is not None:
        p.quadrature.regular = int(regular)
    if singular is not None:
        p.quadrature.singular = int(singular)
    for k, v in fmm.items():
        setattr(p.fmm, k, v)
    return p


def wavenumber(kd):
    """kd = [re, im] or float -> python number."""
    if isinstance(kd, (list, tuple)):
        re, im = float(kd[0]), float(kd[1])
        return re if im == 0 else complex(re, im)
    return float(kd)


SCALAR_OPS = ("V", "K", "Kp", "W")


def boundary_operator(fam, op, dom, rng, dtr, k=None, parameters=None, assembler="dense", precision=None):
    """Create a boundary operator through the public constructors."""
    import bempp_cl.api
    from bempp_cl.api.operators.boundary import laplace, helmholtz, modified_helmholtz, maxwell, sparse

    kw = {"parameters": parameters, "assembler": assembler}
    if precision is not None:
        kw["precision"] = precision
    names = {"V": "single_layer", "K": "double_layer", "Kp": "adjoint_double_layer", "W": "hypersingular"}
    if fam == "laplace":
        return getattr(laplace, names[op])(dom, rng, dtr, **kw)
    if fam == "helmholtz":
        return getattr(helmholtz, names[op])(dom, rng, dtr, k, **kw)
    if fam == "modified":
        return getattr(modified_helmholtz, names[op])(dom, rng, dtr, k, **kw)
    if fam == "maxwell":
        f = {"E": maxwell.electric_field, "M": maxwell.magnetic_field}[op]
        return f(dom, rng, dtr, k, **kw)
    if fam == "sparse":
        kw.pop("assembler")
        f = {"I": sparse.identity, "LB": sparse.laplace_beltrami}[op]
        return f(dom, rng, dtr, **kw)
    raise ValueError(fam)


def raw_operator(identifier, dom, rng, dtr, options, kernel_type, assembly_type, is_complex, parameters=None,
                 assembler="dense", precision=None):
    """Create an operator through operators.boundary.common.create_operator (what the public constructors delegate to)."""
    from bempp_cl.api.operators.boundary import common

    return common.create_operator(identifier, dom, rng, dtr, parameters, assembler, list(options), kernel_type,
                                  assembly_type, None, precision, is_complex)


def raw_like(fam, op, dom, rng, dtr, k=None, parameters=None, assembler="dense", precision=None):
    """Same operator as boundary_operator() but bypassing the space-type guards of the public constructors."""
    kr = float(np.real(k)) if k is not None else 0.0
    ki = float(np.imag(k)) if k is not None else 0.0
    if fam == "laplace":
        table = {
            "V": ("laplace_single_layer_boundary", [], "laplace_single_layer", "default_scalar", False),
            "K": ("laplace_double_layer_boundary", [], "laplace_double_layer", "default_scalar", False),
            "Kp": ("laplace_adjoint_double_layer_boundary", [], "laplace_adjoint_double_layer", "default_scalar", False),
            "W": ("laplace_hypersingular_boundary", [], "laplace_single_layer", "laplace_hypersingular", False),
        }
    elif fam == "helmholtz":
        table = {
            "V": ("helmholtz_single_layer_boundary", [kr, ki], "helmholtz_single_layer", "default_scalar", True),
            "K": ("helmholtz_double_layer_boundary", [kr, ki], "helmholtz_double_layer", "default_scalar", True),
            "Kp": ("helmholtz_adjoint_double_layer_boundary", [kr, ki], "helmholtz_adjoint_double_layer", "default_scalar", True),
            "W": ("helmholtz_hypersingular_boundary", [kr, ki], "helmholtz_single_layer", "helmholtz_hypersingular", True),
        }
    elif fam == "modified":
        table = {
            "V": ("modified_helmholtz_single_layer_boundary", [kr], "modified_helmholtz_single_layer", "default_scalar", False),
            "K": ("modified_helmholtz_double_layer_boundary", [kr], "modified_helmholtz_double_layer", "default_scalar", False),
            "Kp": ("modified_helmholtz_adjoint_double_layer_boundary", [kr], "modified_helmholtz_adjoint_double_layer", "default_scalar", False),
            "W": ("modified_helmholtz_hypersingular_boundary", [kr], "modified_helmholtz_single_layer", "modified_helmholtz_hypersingular", False),
        }
    elif fam == "maxwell":
        table = {
            "E": ("maxwell_electric_field_boundary", [kr, ki], "helmholtz_single_layer", "maxwell_electric_field", True),
            "M": ("maxwell_magnetic_field_boundary", [kr, ki], "helmholtz_single_layer", "maxwell_magnetic_field", True),
        }
    else:
        raise ValueError(fam)
    ident, opts, kt, at, cplx = table[op]
    return raw_operator(ident, dom, rng, dtr, opts, kt, at, cplx, parameters, assembler, precision)


def dense(op):
    """Dense matrix of a boundary operator's weak form."""
    w = op.weak_form()
    if hasattr(w, "to_dense"):
        return np.asarray(w.to_dense())
    return np.asarray(w.A) if hasattr(w, "A") else w @ np.eye(w.shape[1])


def potential_operator(fam, op, space, points, k=None, parameters=None, assembler="dense"):
    from bempp_cl.api.operators.potential import laplace, helmholtz, modified_helmholtz, maxwell

    kw = {"parameters": parameters, "assembler": assembler}
    names = {"V": "single_layer", "K": "double_layer"}
    if fam == "laplace":
        return getattr(laplace, names[op])(space, points, **kw)
    if fam == "helmholtz":
        return getattr(helmholtz, names[op])(space, points, k, **kw)
    if fam == "modified":
        return getattr(modified_helmholtz, names[op])(space, points, k, **kw)
    if fam == "maxwell":
        f = {"E": maxwell.electric_field, "M": maxwell.magnetic_field}[op]
        return f(space, points, k, **kw)
    raise ValueError(fam)


def relerr(a, b, floor=1e-300):
    """max|a-b| / max(|a|,|b|,floor). `floor` is an absolute scale for quantities that may vanish identically
    (e.g. the magnetic-field operator between coplanar elements), so that rounding noise is not read as a relative error."""
    s = max(float(np.max(np.abs(a))) if np.size(a) else 0.0, float(np.max(np.abs(b))) if np.size(b) else 0.0, floor)
    return float(np.max(np.abs(np.asarray(a) - np.asarray(b)))) / s if np.size(a) else 0.0


def entry_floor(grid, fam, op):
    """Scale floor for matrix entries of an operator on `grid`: 1e-4 x the natural magnitude D^p. It is used as a lower bound of the
    *denominator* of relative errors, so a tolerance of 1e-10 still allows absolute differences of 1e-14 D^p: matrices that vanish
    identically (Maxwell M between coplanar elements) carry amplified rounding noise of 1e-17..1e-15 D^p that must not be read as an error."""
    D = float(np.linalg.norm(grid.bounding_box[:, 1] - grid.bounding_box[:, 0]))
    p = {"V": 3, "K": 2, "Kp": 2, "W": 1, "E": 2, "M": 2, "I": 2, "LB": 0}.get(op, 2)
    return 1e-4 * D**p

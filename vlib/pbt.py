"""Property-based search helpers: Violation, signature bucketing, Hypothesis driver.

A *check function* takes a JSON-serialisable descriptor and either returns an
info dict ``{"nontrivial": bool, "labels": [str, ...]}`` or raises
:class:`Violation`.  Exceptions raised inside bempp_cl are converted to
Violations (signature ``crash:<Type>:<file>:<function>``); exceptions raised
elsewhere are harness errors and abort the shard.
"""

import hashlib
import json
import os
import time
import traceback


class Violation(Exception):
    """The property does not hold for this descriptor."""

    def __init__(self, signature, message, details=None):
        super().__init__(f"{signature}: {message}")
        self.signature = signature
        self.message = message
        self.details = details or {}


class Rejected(Exception):
    """The library cleanly rejected an input it documents as unsupported."""


class HarnessError(Exception):
    """The harness itself is broken (oracle self-test, generator bug)."""


def desc_key(desc):
    return hashlib.sha1(json.dumps(desc, sort_keys=True, default=str).encode()).hexdigest()[:16]


def _repo_root():
    return os.path.realpath(os.environ.get("VERIF_REPO", "/repo"))


def crash_signature(exc):
    """Return 'crash:Type:file:function' for the innermost bempp_cl frame, or None."""
    tb = traceback.extract_tb(exc.__traceback__)
    inner = None
    for fr in tb:
        fn = fr.filename.replace("\\", "/")
        if "/bempp_cl/" in fn:
            inner = (fn.split("/bempp_cl/", 1)[1], fr.name)
    if inner is None:
        # numba-compiled library code raises without python frames; look at message
        msg = str(exc)
        if "bempp_cl" in msg:
            return f"crash:{type(exc).__name__}:jit"
        return None
    return f"crash:{type(exc).__name__}:{inner[0]}:{inner[1]}"


def guarded(fn, desc):
    """Run a check function; map library crashes to Violations."""
    try:
        return fn(desc)
    except (Violation, HarnessError):
        raise
    except Rejected:
        return {"nontrivial": False, "labels": ["rejected"]}
    except Exception as exc:  # noqa: BLE001
        sig = crash_signature(exc)
        if sig is None:
            raise
        tb = "".join(traceback.format_exception(type(exc), exc, exc.__traceback__))[-1500:]
        raise Violation(sig, f"library raised {type(exc).__name__}: {exc}"[:400], {"traceback": tb}) from exc


class Stats(object):
    """Per-shard accumulation of what was generated."""

    def __init__(self):
        self.evaluations = 0
        self.keys_nontrivial = set()
        self.keys_all = set()
        self.labels = {}
        self.samples = []
        self.excluded_by_signature = 0
        self.skipped_budget = 0
        self.failures = []  # dicts
        self.notes = []

    def record(self, desc, info, check):
        self.evaluations += 1
        k = desc_key(desc)
        self.keys_all.add(k)
        info = info or {}
        if info.get("nontrivial", True):
            self.keys_nontrivial.add(k)
        for lab in info.get("labels", []):
            self.labels[lab] = self.labels.get(lab, 0) + 1
        if len(self.samples) < 3 and info.get("nontrivial", True):
            s = {"check": check, "descriptor": desc}
            if "measured" in info:
                s["measured"] = info["measured"]
            self.samples.append(s)

    def as_dict(self):
        return {
            "evaluations": self.evaluations,
            "keys_nontrivial": sorted(self.keys_nontrivial),
            "n_distinct": len(self.keys_all),
            "labels": self.labels,
            "samples": self.samples,
            "excluded_by_signature": self.excluded_by_signature,
            "skipped_budget": self.skipped_budget,
            "failures": self.failures,
            "notes": self.notes,
        }


def run_cases(check_name, fn, cases, stats, deadline=None):
    """Exhaustive / enumerated driver (no Hypothesis)."""
    seen = set()
    for desc in cases:
        if deadline is not None and time.time() > deadline:
            stats.skipped_budget += 1
            continue
        try:
            info = guarded(fn, desc)
            stats.record(desc, info, check_name)
        except Violation as v:
            stats.evaluations += 1
            if v.signature in seen:
                stats.excluded_by_signature += 1
                continue
            seen.add(v.signature)
            stats.failures.append(
                {
                    "check": check_name,
                    "signature": v.signature,
                    "message": v.message,
                    "details": v.details,
                    "descriptor": desc,
                }
            )


def run_search(check_name, fn, strategy, stats, seed, max_examples, deadline=None, max_root_causes=4,
               shrink_seconds=60.0):
    """Hypothesis driver with signature bucketing (continue behind a failure)."""
    import hypothesis
    from hypothesis import HealthCheck, Phase, given, settings

    excluded = set()
    first_round = [True]
    for _round in range(max_root_causes + 1):
        target = [None]
        best = [None]
        t_first_fail = [None]

        def body(desc):
            if deadline is not None and time.time() > deadline and best[0] is None:
                stats.skipped_budget += 1
                return
            if best[0] is not None and t_first_fail[0] is not None:
                if time.time() - t_first_fail[0] > shrink_seconds:
                    # shrink budget used up: only the current best keeps failing
                    if desc_key(desc) == desc_key(best[0][0]):
                        raise best[0][1]
                    return
            try:
                info = guarded(fn, desc)
            except Violation as v:
                stats.evaluations += 1
                if v.signature in excluded:
                    stats.excluded_by_signature += 1
                    return
                if target[0] is None:
                    target[0] = v.signature
                    t_first_fail[0] = time.time()
                if v.signature != target[0]:
                    return
                best[0] = (desc, v)
                raise
            if first_round[0]:
                stats.record(desc, info, check_name)

        test = given(strategy)(body)
        test = hypothesis.seed(seed)(test)
        test = settings(
            max_examples=max_examples,
            database=None,
            deadline=None,
            derandomize=False,
            report_multiple_bugs=False,
            print_blob=False,
            phases=[Phase.generate, Phase.shrink],
            suppress_health_check=list(HealthCheck),
        )(test)
        try:
            test()
        except Violation:
            pass
        except HarnessError:
            raise
        except BaseException as exc:  # noqa: BLE001  (Flaky, etc.)
            if best[0] is None:
                raise
            stats.notes.append(f"hypothesis ended with {type(exc).__name__} after a failure was recorded")
        first_round[0] = False
        if best[0] is None:
            break
        desc, v = best[0]
        stats.failures.append(
            {
                "check": check_name,
                "signature": v.signature,
                "message": v.message,
                "details": v.details,
                "descriptor": desc,
            }
        )
        excluded.add(v.signature)
        if deadline is not None and time.time() > deadline:
            break

"""Constructive generators for triangle meshes.

A mesh is described by a small JSON-serialisable *descriptor* (what Hypothesis draws,
shrinks and what replay files store); :func:`build` turns it into arrays:

    {"base": "octa" | "tetra" | "cube" | "prism" | "icosa" | "lprism" | "torus" | "two" |
             "sheet" | "strip" | "fan" | "sub" | "multitrace",
     "p": [...base parameters...],
     "edits": [["face", i], ["edge", i], ["flip", i], ["refine"]],   # topological edits
     "amp": 0.0..0.3, "gseed": int,        # vertex displacement amp * h_min * N(0,1)
     "aniso": [sx, sy, sz], "quat": [w,x,y,z], "trans": [tx,ty,tz], "lscale": k (scale 10**k),
     "relabel": int | None,                # seed for vertex/element permutation + local rotations
     "domains": {"mode": "all0"|"patch"|"scatter"|"plane"|"base", "n": int, "seed": int, "values": [..]},
     "cls": "regular" | "hard"}

No rejection loops: quality is enforced by *clamping* the displacement amplitude.
"""

import math

import numpy as np

# ------------------------------------------------------------------ bases
def _tetra():
    v = np.array([[1, 1, 1], [1, -1, -1], [-1, 1, -1], [-1, -1, 1]], dtype=float)
    e = [[0, 1, 2], [0, 3, 1], [0, 2, 3], [1, 3, 2]]
    return v, e


def _octa():
    v = np.array([[1, 0, 0], [-1, 0, 0], [0, 1, 0], [0, -1, 0], [0, 0, 1], [0, 0, -1]], dtype=float)
    e = [[0, 2, 4], [2, 1, 4], [1, 3, 4], [3, 0, 4], [2, 0, 5], [1, 2, 5], [3, 1, 5], [0, 3, 5]]
    return v, e


def _box(lo, hi, diag_bits=0):
    lo = np.asarray(lo, float)
    hi = np.asarray(hi, float)
    v = np.array(
        [[x, y, z] for z in (lo[2], hi[2]) for y in (lo[1], hi[1]) for x in (lo[0], hi[0])], dtype=float
    )
    # faces as quads (outward ccw)
    quads = [[0, 2, 3, 1], [4, 5, 7, 6], [0, 1, 5, 4], [2, 6, 7, 3], [0, 4, 6, 2], [1, 3, 7, 5]]
    e = []
    for i, (a, b, c, d) in enumerate(quads):
        if (diag_bits >> i) & 1:
            e += [[a, b, d], [b, c, d]]
        else:
            e += [[a, b, c], [a, c, d]]
    return v, e


def _prism():
    v = np.array([[0, 0, 0], [1, 0, 0], [0.5, 0.9, 0], [0, 0, 1], [1, 0, 1], [0.5, 0.9, 1]], dtype=float)
    e = [[0, 2, 1], [3, 4, 5], [0, 1, 4], [0, 4, 3], [1, 2, 5], [1, 5, 4], [2, 0, 3], [2, 3, 5]]
    return v, e


def _icosa():
    t = (1 + math.sqrt(5)) / 2
    v = np.array(
        [[-1, t, 0], [1, t, 0], [-1, -t, 0], [1, -t, 0], [0, -1, t], [0, 1, t], [0, -1, -t], [0, 1, -t],
         [t, 0, -1], [t, 0, 1], [-t, 0, -1], [-t, 0, 1]], dtype=float)
    e = [[0, 11, 5], [0, 5, 1], [0, 1, 7], [0, 7, 10], [0, 10, 11], [1, 5, 9], [5, 11, 4], [11, 10, 2], [10, 7, 6],
         [7, 1, 8], [3, 9, 4], [3, 4, 2], [3, 2, 6], [3, 6, 8], [3, 8, 9], [4, 9, 5], [2, 4, 11], [6, 2, 10],
         [8, 6, 7], [9, 8, 1]]
    return v, e


def _extrude_polygon(poly, tris2d, h):
    """Closed prism over a polygon with a given 2D triangulation (ccw)."""
    n = len(poly)
    v = np.array([[x, y, 0.0] for x, y in poly] + [[x, y, h] for x, y in poly])
    e = []
    for a, b, c in tris2d:
        e.append([a, c, b])  # bottom, outward -z
        e.append([a + n, b + n, c + n])  # top
    for i in range(n):
        j = (i + 1) % n
        e.append([i, j, j + n])
        e.append([i, j + n, i + n])
    return v, e


def _lprism():
    poly = [(0, 0), (2, 0), (2, 1), (1, 1), (1, 2), (0, 2)]
    tris = [[0, 1, 2], [0, 2, 3], [0, 3, 5], [3, 4, 5]]
    return _extrude_polygon(poly, tris, 1.0)


def _torus(n, m, R=2.0, r=0.8):
    v = []
    for i in range(n):
        for j in range(m):
            th = 2 * math.pi * i / n
            ph = 2 * math.pi * j / m
            v.append([(R + r * math.cos(ph)) * math.cos(th), (R + r * math.cos(ph)) * math.sin(th), r * math.sin(ph)])
    e = []
    for i in range(n):
        for j in range(m):
            a = i * m + j
            b = ((i + 1) % n) * m + j
            c = ((i + 1) % n) * m + (j + 1) % m
            d = i * m + (j + 1) % m
            e += [[a, b, c], [a, c, d]]
    return np.array(v), e


def _sheet(nx, ny, diag_seed):
    rng = np.random.default_rng(diag_seed)
    v = np.array([[i, j, 0.0] for j in range(ny + 1) for i in range(nx + 1)], dtype=float)
    e = []
    for j in range(ny):
        for i in range(nx):
            a = j * (nx + 1) + i
            b = a + 1
            c = a + nx + 2
            d = a + nx + 1
            if diag_seed and rng.integers(2):
                e += [[a, b, d], [b, c, d]]
            else:
                e += [[a, b, c], [a, c, d]]
    return v, e


def _fan(n, closed_angle):
    ang = (2 * math.pi if closed_angle else 1.5 * math.pi)
    v = [[0, 0, 0.0]]
    cnt = n if closed_angle else n + 1
    for i in range(cnt):
        t = ang * i / n
        v.append([math.cos(t), math.sin(t), 0.0])
    e = []
    for i in range(n):
        a = 1 + i
        b = 1 + (i + 1) % cnt if closed_angle else 2 + i
        e.append([0, a, b])
    return np.array(v), e


def _multitrace():
    """Two unit boxes sharing the face x=1 whose two triangles exist once (non-manifold edges)."""
    v1, e1 = _box([0, 0, 0], [1, 1, 1])
    v2, e2 = _box([1, 0, 0], [2, 1, 1])
    # weld vertices
    verts = []
    index = {}

    def vid(p):
        k = tuple(np.round(p, 9))
        if k not in index:
            index[k] = len(verts)
            verts.append(list(p))
        return index[k]

    elems = []
    doms = []
    for tri in e1:
        pts = v1[tri]
        on_iface = np.allclose(pts[:, 0], 1.0)
        elems.append([vid(p) for p in pts])
        doms.append(3 if on_iface else 1)  # interface normal points +x (outward for box 1)
    for tri in e2:
        pts = v2[tri]
        if np.allclose(pts[:, 0], 1.0):
            continue
        elems.append([vid(p) for p in pts])
        doms.append(2)
    return np.array(verts), elems, doms


BASES_CLOSED = ["tetra", "octa", "cube", "prism", "icosa", "lprism", "torus", "two"]
BASES_OPEN = ["sheet", "strip", "fan", "sub"]


def base_mesh(base, p):
    """Return (vertices (N,3), elements list, base-domain list or None)."""
    doms = None
    if base == "tetra":
        v, e = _tetra()
    elif base == "octa":
        v, e = _octa()
    elif base == "cube":
        v, e = _box([0, 0, 0], [1, 1, 1], int(p[0]) if p else 0)
    elif base == "prism":
        v, e = _prism()
    elif base == "icosa":
        v, e = _icosa()
    elif base == "lprism":
        v, e = _lprism()
    elif base == "torus":
        n = int(p[0]) if p else 5
        m = int(p[1]) if len(p) > 1 else 4
        v, e = _torus(max(3, n), max(3, m))
    elif base == "two":
        names = ["tetra", "octa", "cube", "prism"]
        a = names[int(p[0]) % 4] if p else "tetra"
        b = names[int(p[1]) % 4] if len(p) > 1 else "octa"
        v1, e1, _ = base_mesh(a, [])
        v2, e2, _ = base_mesh(b, [])
        gap = float(p[2]) if len(p) > 2 else 1.5
        shift = (v1[:, 0].max() - v2[:, 0].min()) + gap * max(np.ptp(v1, axis=0).max(), np.ptp(v2, axis=0).max())
        v2 = v2 + np.array([shift, 0.3, -0.2])
        v = np.vstack([v1, v2])
        e = [list(t) for t in e1] + [[i + len(v1) for i in t] for t in e2]
        doms = [0] * len(e1) + [1] * len(e2)
    elif base == "sheet":
        nx = int(p[0]) if p else 2
        ny = int(p[1]) if len(p) > 1 else 2
        v, e = _sheet(max(1, nx), max(1, ny), int(p[2]) if len(p) > 2 else 0)
    elif base == "strip":
        n = int(p[0]) if p else 3
        v, e = _sheet(max(1, n), 1, int(p[1]) if len(p) > 1 else 0)
    elif base == "fan":
        n = int(p[0]) if p else 5
        v, e = _fan(max(3, n), bool(p[1]) if len(p) > 1 else False)
    elif base == "sub":
        names = ["octa", "cube", "icosa", "prism", "tetra", "sheet22", "prismfin", "sheet32"]
        parent = names[int(p[0]) % len(names)]
        if parent == "sheet22":
            v, e = _sheet(2, 2, 0)
        elif parent == "sheet32":
            v, e = _sheet(3, 2, 0)
        elif parent == "prismfin":
            v, e = _prism()
            v = np.vstack([v, [[0.5, -0.8, -0.3], [1.4, -0.7, 0.2]]])
            e = e + [[0, 1, 6], [1, 7, 6]]
        else:
            v, e, _ = base_mesh(parent, [])
        mask = int(p[1])
        keep = [i for i in range(len(e)) if (mask >> i) & 1]
        if len(keep) == 0:
            keep = [0]
        e = [e[i] for i in keep]
        used = sorted({i for t in e for i in t})
        remap = {o: n for n, o in enumerate(used)}
        v = v[used]
        e = [[remap[i] for i in t] for t in e]
    elif base == "multitrace":
        v, e, doms = _multitrace()
    else:
        raise ValueError(base)
    return np.asarray(v, dtype=float), [list(map(int, t)) for t in e], doms


# ------------------------------------------------------------------ edits
def _edge_map(e):
    m = {}
    for ti, t in enumerate(e):
        for k in range(3):
            a, b = t[k], t[(k + 1) % 3]
            m.setdefault((min(a, b), max(a, b)), []).append(ti)
    return m


def edit_face(v, e, d, i):
    i %= len(e)
    a, b, c = e[i]
    n = len(v)
    v = np.vstack([v, (v[a] + v[b] + v[c]) / 3.0])
    e = e[:i] + [[a, b, n], [b, c, n], [c, a, n]] + e[i + 1:]
    d = d[:i] + [d[i]] * 3 + d[i + 1:]
    return v, e, d


def edit_edge(v, e, d, i):
    em = _edge_map(e)
    keys = sorted(em)
    a, b = keys[i % len(keys)]
    n = len(v)
    v = np.vstack([v, 0.5 * (v[a] + v[b])])
    ne, nd = [], []
    for t, dom in zip(e, d):
        if a in t and b in t:
            k = [j for j in range(3) if t[j] not in (a, b)][0]
            # rotate so that t = (c, x, y) with {x,y}={a,b}
            c, x, y = t[k], t[(k + 1) % 3], t[(k + 2) % 3]
            ne += [[c, x, n], [c, n, y]]
            nd += [dom, dom]
        else:
            ne.append(t)
            nd.append(dom)
    return v, ne, nd


def edit_refine(v, e, d):
    v = [list(p) for p in v]
    mid = {}

    def m(a, b):
        k = (min(a, b), max(a, b))
        if k not in mid:
            mid[k] = len(v)
            v.append([(v[a][j] + v[b][j]) / 2 for j in range(3)])
        return mid[k]

    ne, nd = [], []
    for t, dom in zip(e, d):
        a, b, c = t
        ab, bc, ca = m(a, b), m(b, c), m(c, a)
        ne += [[a, ab, ca], [ab, b, bc], [ca, bc, c], [ab, bc, ca]]
        nd += [dom] * 4
    return np.array(v), ne, nd


def _min_angle_tri(p0, p1, p2):
    best = math.pi
    pts = [p0, p1, p2]
    for k in range(3):
        u = pts[(k + 1) % 3] - pts[k]
        w = pts[(k + 2) % 3] - pts[k]
        c = np.dot(u, w) / (np.linalg.norm(u) * np.linalg.norm(w) + 1e-300)
        best = min(best, math.acos(max(-1.0, min(1.0, c))))
    return best


def edit_flip(v, e, d, i):
    em = _edge_map(e)
    keys = [k for k in sorted(em) if len(em[k]) == 2]
    if not keys:
        return v, e, d
    a, b = keys[i % len(keys)]
    t0, t1 = em[(a, b)]
    if d[t0] != d[t1]:
        return v, e, d
    c0 = [x for x in e[t0] if x not in (a, b)][0]
    c1 = [x for x in e[t1] if x not in (a, b)][0]
    if (min(c0, c1), max(c0, c1)) in em:
        return v, e, d
    # orientation: in t0 the edge appears as (a,b) or (b,a)
    t = e[t0]
    k = t.index(a)
    if t[(k + 1) % 3] != b:
        a, b = b, a
    # t0 = (a, b, c0), t1 = (b, a, c1); new: (c0, a, c1), (c1, b, c0)
    n0 = [c0, a, c1]
    n1 = [c1, b, c0]
    old_n = np.cross(v[b] - v[a], v[c0] - v[a])
    for tri in (n0, n1):
        nn = np.cross(v[tri[1]] - v[tri[0]], v[tri[2]] - v[tri[0]])
        if np.linalg.norm(nn) < 1e-12 or np.dot(nn, old_n) <= 0.2 * np.linalg.norm(nn) * np.linalg.norm(old_n):
            return v, e, d
        if _min_angle_tri(v[tri[0]], v[tri[1]], v[tri[2]]) < math.radians(20):
            return v, e, d
    e = list(e)
    e[t0] = n0
    e[t1] = n1
    return v, e, d


# ------------------------------------------------------------------ quality
def quality(v, e):
    """Return (min angle [rad], max adjacent area ratio, h_min, h_max)."""
    E = np.asarray(e)
    p0, p1, p2 = v[E[:, 0]], v[E[:, 1]], v[E[:, 2]]
    l0 = np.linalg.norm(p1 - p0, axis=1)
    l1 = np.linalg.norm(p2 - p1, axis=1)
    l2 = np.linalg.norm(p0 - p2, axis=1)
    area = 0.5 * np.linalg.norm(np.cross(p1 - p0, p2 - p0), axis=1)

    def ang(a, b, c):  # angle opposite to side a
        cs = (b * b + c * c - a * a) / (2 * b * c + 1e-300)
        return np.arccos(np.clip(cs, -1, 1))

    amin = float(np.min([ang(l0, l1, l2), ang(l1, l2, l0), ang(l2, l0, l1)]))
    ratio = 1.0
    for k, ts in _edge_map(e).items():
        for i in range(len(ts)):
            for j in range(i + 1, len(ts)):
                a, b = area[ts[i]], area[ts[j]]
                ratio = max(ratio, a / b if a > b else b / a)
    hs = np.concatenate([l0, l1, l2])
    return amin, float(ratio), float(hs.min()), float(hs.max())


def dihedral_ok(v, e, min_cos=-0.95):
    """No two edge-neighbours folded almost flat onto each other."""
    E = np.asarray(e)
    n = np.cross(v[E[:, 1]] - v[E[:, 0]], v[E[:, 2]] - v[E[:, 0]])
    n /= np.linalg.norm(n, axis=1)[:, None] + 1e-300
    for k, ts in _edge_map(e).items():
        if len(ts) == 2:
            if np.dot(n[ts[0]], n[ts[1]]) < min_cos:
                return False
    return True


def self_intersects(v, e):
    """True if two triangles of the soup meet other than in a common vertex/edge: an edge of one pierces the interior of another, or
    two coplanar triangles overlap (folded surface). Such a soup is not the boundary of a polyhedron / not an embedded screen; the
    identities the checks rely on (and geometric point location) do not apply to it."""
    v = np.asarray(v, dtype=float)
    E = np.asarray(e, dtype=int)
    m = len(E)
    if m < 2:
        return False
    P = v[E]  # (m,3,3)
    n = np.cross(P[:, 1] - P[:, 0], P[:, 2] - P[:, 0])
    nn = np.linalg.norm(n, axis=1)
    h = np.sqrt(nn)
    nu = n / (nn[:, None] + 1e-300)
    ii, jj = np.triu_indices(m, 1)
    # bounding-box prefilter
    lo, hi = P.min(axis=1), P.max(axis=1)
    tol = 1e-9 * float(np.max(hi - lo) + 1e-300)
    keep = np.all(lo[ii] <= hi[jj] + tol, axis=1) & np.all(lo[jj] <= hi[ii] + tol, axis=1)
    ii, jj = ii[keep], jj[keep]

    def strictly_inside(x, T, eps=1e-7):
        e1, e2 = T[1] - T[0], T[2] - T[0]
        d = x - T[0]
        a11, a12, a22 = e1 @ e1, e1 @ e2, e2 @ e2
        det = a11 * a22 - a12 * a12
        if det <= 0:
            return False
        b1, b2 = d @ e1, d @ e2
        s_, t_ = (a22 * b1 - a12 * b2) / det, (a11 * b2 - a12 * b1) / det
        return s_ > eps and t_ > eps and s_ + t_ < 1 - eps

    def seg_cross_2d(p, q, r, s_, ax1, ax2):
        def c(x):
            return np.array([x @ ax1, x @ ax2])
        p, q, r, s_ = c(p), c(q), c(r), c(s_)
        d1, d2 = q - p, s_ - r
        den = d1[0] * d2[1] - d1[1] * d2[0]
        if abs(den) < 1e-14 * (np.linalg.norm(d1) * np.linalg.norm(d2) + 1e-300):
            return False
        w = r - p
        t = (w[0] * d2[1] - w[1] * d2[0]) / den
        u = (w[0] * d1[1] - w[1] * d1[0]) / den
        return 1e-7 < t < 1 - 1e-7 and 1e-7 < u < 1 - 1e-7

    for a, b in zip(ii, jj):
        shared = len(set(E[a].tolist()) & set(E[b].tolist()))
        if shared == 3:
            return True
        coplanar = abs(nu[a] @ nu[b]) > 1 - 1e-10 and abs((P[b][0] - P[a][0]) @ nu[a]) < 1e-9 * max(h[a], h[b])
        if coplanar:
            ax1 = P[a][1] - P[a][0]
            ax1 = ax1 / np.linalg.norm(ax1)
            ax2 = np.cross(nu[a], ax1)
            for x in P[a]:
                if strictly_inside(x, P[b]):
                    return True
            for x in P[b]:
                if strictly_inside(x, P[a]):
                    return True
            for k in range(3):
                for l_ in range(3):
                    if seg_cross_2d(P[a][k], P[a][(k + 1) % 3], P[b][l_], P[b][(l_ + 1) % 3], ax1, ax2):
                        return True
            # centroid of one inside the other (identical-shape overlap with all vertices on the boundary)
            if strictly_inside(P[a].mean(axis=0), P[b]) or strictly_inside(P[b].mean(axis=0), P[a]):
                return True
            continue
        for (S, T, nT, hT) in ((P[a], P[b], nu[b], h[b]), (P[b], P[a], nu[a], h[a])):
            for k in range(3):
                p, q = S[k], S[(k + 1) % 3]
                dp, dq = (p - T[0]) @ nT, (q - T[0]) @ nT
                if dp * dq < -(1e-9 * hT) ** 2 and abs(dp) > 1e-9 * hT and abs(dq) > 1e-9 * hT:
                    x = p + (dp / (dp - dq)) * (q - p)
                    if strictly_inside(x, T):
                        return True
    return False


CLASS_BOUNDS = {"regular": (math.radians(28), 2.6), "hard": (math.radians(12), 6.0)}


def _rotation(quat):
    q = np.asarray(quat, dtype=float)
    nq = np.linalg.norm(q)
    if nq < 1e-12:
        return np.eye(3)
    w, x, y, z = q / nq
    return np.array(
        [
            [1 - 2 * (y * y + z * z), 2 * (x * y - z * w), 2 * (x * z + y * w)],
            [2 * (x * y + z * w), 1 - 2 * (x * x + z * z), 2 * (y * z - x * w)],
            [2 * (x * z - y * w), 2 * (y * z + x * w), 1 - 2 * (x * x + y * y)],
        ]
    )


def assign_domains(v, e, spec, base_doms):
    ne = len(e)
    if spec is None or spec.get("mode", "all0") == "all0":
        return [0] * ne
    mode = spec["mode"]
    vals = spec.get("values") or [0, 3, 7, 12]
    n = max(1, min(int(spec.get("n", 2)), len(vals), ne))
    rng = np.random.default_rng(int(spec.get("seed", 0)))
    if mode == "base" and base_doms is not None:
        return [int(vals[x % len(vals)]) for x in base_doms]
    if mode == "scatter":
        lab = rng.integers(0, n, size=ne)
        return [int(vals[i]) for i in lab]
    if mode == "plane":
        E = np.asarray(e)
        c = (v[E[:, 0]] + v[E[:, 1]] + v[E[:, 2]]) / 3
        direction = rng.standard_normal(3)
        direction /= np.linalg.norm(direction)
        s = c @ direction
        qs = np.quantile(s, np.linspace(0, 1, n + 1)[1:-1]) if n > 1 else []
        lab = np.searchsorted(qs, s)
        return [int(vals[i]) for i in lab]
    # patch: multi-source BFS over edge-neighbours
    em = _edge_map(e)
    nb = [[] for _ in range(ne)]
    for ts in em.values():
        for a in ts:
            for b in ts:
                if a != b:
                    nb[a].append(b)
    lab = [-1] * ne
    seeds = list(rng.choice(ne, size=n, replace=False))
    frontier = []
    for i, s in enumerate(seeds):
        lab[s] = i
        frontier.append(s)
    while frontier:
        nxt = []
        for t in frontier:
            for u in nb[t]:
                if lab[u] < 0:
                    lab[u] = lab[t]
                    nxt.append(u)
        frontier = nxt
    for i in range(ne):  # other components
        if lab[i] < 0:
            lab[i] = 0
    return [int(vals[i]) for i in lab]


def build(desc):
    """Build arrays from a descriptor. Returns dict with vertices (3,N) float64, elements (3,M) uint32, domains (M,)."""
    v, e, base_doms = base_mesh(desc.get("base", "octa"), desc.get("p", []))
    d = list(base_doms) if base_doms is not None else [0] * len(e)
    max_elems = int(desc.get("max_elems", 400))
    cls = desc.get("cls", "hard")
    amin_b, ratio_b = CLASS_BOUNDS[cls]
    for ed in desc.get("edits", []):
        kind = ed[0]
        prev = (v, e, d)
        q_prev = quality(v, e) if cls == "regular" else None
        if kind == "refine":
            if 4 * len(e) > max_elems:
                continue
            v, e, d = edit_refine(v, e, d)
        elif len(e) + 2 > max_elems:
            continue
        elif kind == "face":
            v, e, d = edit_face(v, e, d, int(ed[1]))
        elif kind == "edge":
            v, e, d = edit_edge(v, e, d, int(ed[1]))
        elif kind == "flip":
            v, e, d = edit_flip(v, e, d, int(ed[1]))
        if cls == "regular" and kind != "refine":
            qn = quality(v, e)
            if (qn[0] < amin_b and qn[0] < q_prev[0]) or (qn[1] > ratio_b and qn[1] > q_prev[1]):
                v, e, d = prev  # constructive skip: the edit would leave the mesh class
    base_doms = d if base_doms is not None else None
    # displacement with clamped amplitude
    amp = float(desc.get("amp", 0.0))
    gseed = int(desc.get("gseed", 0))
    v0 = v
    used_amp = 0.0
    planar = desc.get("base") in ("sheet", "strip", "fan")
    if amp > 0:
        rng = np.random.default_rng(gseed)
        noise = rng.standard_normal(v.shape)
        if planar and desc.get("flat", False):
            noise[:, 2] = 0
        _, _, hmin, _ = quality(v0, e)
        a0 = quality(v0, e)
        for _ in range(8):
            cand = v0 + amp * hmin * noise
            q = quality(cand, e)
            # never demand better than the undisplaced mesh already is
            if q[0] >= min(amin_b, a0[0]) and q[1] <= max(ratio_b, a0[1]) and dihedral_ok(cand, e):
                v = cand
                used_amp = amp
                break
            amp *= 0.5
    # embeddedness: edge flips / splits plus displacement can fold the surface onto itself (coplanar overlapping or piercing elements);
    # constructive fallback: drop the displacement, then the edits (the base meshes are embedded)
    if (desc.get("edits") or used_amp > 0) and not desc.get("_no_embed_check") and self_intersects(v, e):
        if used_amp > 0 and not self_intersects(v0, e):
            v, used_amp = v0, 0.0
        else:
            d2 = dict(desc)
            d2["edits"] = [x for x in desc.get("edits", []) if x[0] == "refine"]
            d2["amp"] = 0.0
            d2["_no_embed_check"] = True
            out = build(d2)
            out["embedded_fallback"] = True
            return out
    # domain labels are intrinsic to the (displaced) base geometry: assigned before the rigid motion / scaling
    doms = assign_domains(v, e, desc.get("domains"), base_doms)
    an = desc.get("aniso")
    if an:
        v = v * np.asarray(an, dtype=float)[None, :]
    v = v @ _rotation(desc.get("quat", [1, 0, 0, 0])).T
    v = v * (10.0 ** float(desc.get("lscale", 0)))
    v = v + np.asarray(desc.get("trans", [0, 0, 0]), dtype=float)[None, :]
    E = np.asarray(e, dtype=np.int64)
    doms = np.asarray(doms, dtype=np.int64)
    rl = desc.get("relabel")
    vperm = eperm = rots = None
    if rl is not None:
        rng = np.random.default_rng(int(rl))
        vperm = rng.permutation(len(v))  # new index of old vertex i is vperm[i]
        inv = np.empty_like(vperm)
        inv[vperm] = np.arange(len(v))
        v = v[inv]
        E = vperm[E]
        eperm = rng.permutation(len(E))  # new element j is old element eperm[j]
        E = E[eperm]
        doms = doms[eperm]
        rots = rng.integers(0, 3, size=len(E))
        E = np.array([np.roll(t, -r) for t, r in zip(E, rots)])
    q = quality(v, E.tolist())
    return {
        "vertices": np.ascontiguousarray(v.T, dtype=np.float64),
        "elements": np.ascontiguousarray(E.T.astype(np.uint32)),
        "domains": doms,
        "quality": {"min_angle_deg": math.degrees(q[0]), "area_ratio": q[1], "hmin": q[2], "hmax": q[3]},
        "used_amp": used_amp,
        "vperm": vperm,
        "eperm": eperm,
        "rots": rots,
    }


def make_grid(desc, mesh=None):
    import bempp_cl.api

    m = mesh or build(desc)
    return bempp_cl.api.Grid(m["vertices"], m["elements"], m["domains"].astype("uint32"))


# ------------------------------------------------------------------ harness-side topology
def topology(elements):
    """Brute-force topology of a triangle soup; elements (3,M)."""
    E = np.asarray(elements).T.astype(int)
    edges = {}
    for ti, t in enumerate(E):
        for k in range(3):
            a, b = int(t[k]), int(t[(k + 1) % 3])
            edges.setdefault((min(a, b), max(a, b)), []).append(ti)
    vert_elems = {}
    for ti, t in enumerate(E):
        for x in t:
            vert_elems.setdefault(int(x), set()).add(ti)
    boundary_edges = {k for k, ts in edges.items() if len(ts) == 1}
    boundary_verts = {x for k in boundary_edges for x in k}
    return {"edges": edges, "vert_elems": vert_elems, "boundary_edges": boundary_edges, "boundary_verts": boundary_verts}


def is_manifold(elements, support=None):
    E = np.asarray(elements).T.astype(int)
    cnt = {}
    for ti, t in enumerate(E):
        if support is not None and not support[ti]:
            continue
        for k in range(3):
            a, b = int(t[k]), int(t[(k + 1) % 3])
            cnt[(min(a, b), max(a, b))] = cnt.get((min(a, b), max(a, b)), 0) + 1
    return all(c <= 2 for c in cnt.values())


def signed_volume(vertices, elements):
    v = vertices.T
    E = np.asarray(elements).T.astype(int)
    return float(np.sum(np.einsum("ij,ij->i", v[E[:, 0]], np.cross(v[E[:, 1]], v[E[:, 2]]))) / 6.0)


# ------------------------------------------------------------------ Hypothesis strategies
def mesh_descs(kind="any", max_elems=120, cls=None, domains=False, relabel=True, motion=True, min_edits=0,
               bases=None, max_edits=4, allow_refine=True):
    """Strategy for mesh descriptors. kind in closed|open|any|multitrace."""
    from hypothesis import strategies as st

    @st.composite
    def s(draw):
        if bases is not None:
            base = draw(st.sampled_from(bases))
        elif kind == "closed":
            base = draw(st.sampled_from(BASES_CLOSED))
        elif kind == "open":
            base = draw(st.sampled_from(BASES_OPEN))
        elif kind == "multitrace":
            base = "multitrace"
        else:
            base = draw(st.sampled_from(BASES_CLOSED + BASES_OPEN))
        p = []
        if base == "cube":
            p = [draw(st.integers(0, 63))]
        elif base == "torus":
            p = [draw(st.integers(3, 6)), draw(st.integers(3, 5))]
        elif base == "two":
            p = [draw(st.integers(0, 3)), draw(st.integers(0, 3)), draw(st.sampled_from([0.6, 1.0, 2.0]))]
        elif base == "sheet":
            p = [draw(st.integers(1, 4)), draw(st.integers(1, 3)), draw(st.integers(0, 50))]
        elif base == "strip":
            p = [draw(st.integers(2, 6)), draw(st.integers(0, 50))]
        elif base == "fan":
            p = [draw(st.integers(3, 8)), draw(st.integers(0, 1))]
        elif base == "sub":
            parent = draw(st.integers(0, 4))
            nfaces = [8, 12, 20, 8, 4][parent]
            mask = draw(st.integers(1, 2**nfaces - 1))
            if bin(mask).count("1") < 2:
                mask |= 3
            p = [parent, mask]
        edits = []
        ne = draw(st.integers(min_edits, max_edits))
        for _ in range(ne):
            k = draw(st.sampled_from(["face", "edge", "flip", "edge", "face"] + (["refine"] if allow_refine else [])))
            edits.append([k, draw(st.integers(0, 500))] if k != "refine" else ["refine"])
        d = {"base": base, "p": p, "edits": edits, "max_elems": max_elems}
        d["amp"] = draw(st.sampled_from([0.0, 0.05, 0.12, 0.2, 0.3]))
        d["gseed"] = draw(st.integers(0, 10**6))
        d["cls"] = cls or draw(st.sampled_from(["regular", "hard"]))
        if motion:
            if draw(st.booleans()):
                d["aniso"] = [draw(st.sampled_from([1.0, 0.7, 1.5])) for _ in range(3)]
            if draw(st.booleans()):
                d["quat"] = [draw(st.integers(-3, 3)) for _ in range(4)]
                d["trans"] = [draw(st.sampled_from([0.0, 0.5, -3.0, 100.0])) for _ in range(3)]
            d["lscale"] = draw(st.sampled_from([0, 0, 0, -2, 1, 2, -3]))
        if relabel and draw(st.booleans()):
            d["relabel"] = draw(st.integers(0, 10**6))
        if domains:
            mode = draw(st.sampled_from(["patch", "patch", "scatter", "plane", "all0"] + (["base"] if base in ("two", "multitrace") else [])))
            d["domains"] = {
                "mode": mode,
                "n": draw(st.integers(1, 4)),
                "seed": draw(st.integers(0, 10**6)),
                "values": draw(st.sampled_from([[0, 1, 2, 3], [0, 3, 7, 12], [5, 2, 9, 1], [1, 2, 3, 4], [10, 0, 4000000, 6]])),
            }
        elif base == "multitrace":
            d["domains"] = {"mode": "base", "values": [0, 1, 2, 3]}
        return d

    return s()

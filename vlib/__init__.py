"""Verification library for the bempp-cl property checks (see /verif/DESIGN.md)."""

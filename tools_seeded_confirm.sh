#!/bin/bash
# Confirm one seeded mutation: demo fails with patch, passes on /repo, pinned tests pass with patch.
# usage: tools_seeded_confirm.sh <name>   (worktree /tmp/wt/ev/<name> must have the patch applied)
n=$1; wt=/tmp/wt/ev/$n; s=/verif/seeded/$n; out=$s/confirm.txt
export OMP_WAIT_POLICY=passive GOMP_SPINCOUNT=0 NUMBA_NUM_THREADS=2
extra=""; [ -d /verif/seeded/C17_stub ] && extra=":/verif/seeded/C17_stub"
cd /tmp && mkdir -p /tmp/wt/ev_run/$n && cd /tmp/wt/ev_run/$n
( PYTHONPATH=$wt$extra timeout 1800 nice -n 15 /venv/bin/python $s/demo.py > demo_patched.log 2>&1; echo "demo_with_patch_exit=$?" > $out )
( PYTHONPATH=/repo$extra timeout 1800 nice -n 15 /venv/bin/python $s/demo.py > demo_clean.log 2>&1; echo "demo_on_repo_exit=$?" >> $out )
if [ "$2" != "nostable" ]; then
  ( cd $wt && nice -n 19 /venv/bin/python -m pytest -q -p no:cacheprovider --timeout=1800 $(cat /tmp/wt/stable_tests.txt | tr '\n' ' ') > /tmp/wt/ev_run/$n/stable.log 2>&1; tail -1 /tmp/wt/ev_run/$n/stable.log | sed 's/^/stable_with_patch: /' >> $out )
fi

#!/bin/bash
# Developer helper: run quick checks at another VERIF_SEED without touching the evidence files.
seed=$1; shift
ids=${@:-C03 C04 C05 C07 C08 C17 C13 C18 C06 C10 C09 C14 C16 C01 C02 C11 C12 C15 C19 C20}
mkdir -p /verif/out/logs
for id in $ids; do
  s=$(date +%s)
  VERIF_SEED=$seed /venv/bin/python /verif/check.py $id --tier quick --no-evidence > /verif/out/logs/$id.quick.seed$seed.log 2>&1
  rc=$?
  echo "$id seed=$seed rc=$rc $(( $(date +%s) - s ))s $(tail -1 /verif/out/logs/$id.quick.seed$seed.log | cut -c1-160)"
done

#!/bin/bash
# import the deliverables of a seeding agent: /tmp/wt/<ID>.out/m<k>/ -> /verif/seeded/<ID>_m<k>/ and a patched scratch worktree /tmp/wt/ev/<ID>_m<k>
id=$1
for d in /tmp/wt/$id.out/m*; do
  [ -f $d/patch.diff ] || continue
  k=$(basename $d); n=${id}_$k; s=/verif/seeded/$n
  mkdir -p $s; cp $d/patch.diff $s/patch.diff; cp $d/demo.py $s/demo.py; cp $d/meta.json $s/agent_meta.json
  if [ ! -d /tmp/wt/ev/$n ]; then
    git -C /repo worktree add --detach /tmp/wt/ev/$n HEAD -q && git -C /tmp/wt/ev/$n apply $s/patch.diff && echo "$n applied" || echo "$n APPLY FAILED"
  fi
  grep -qx $n /tmp/wt/ev_list.txt || echo $n >> /tmp/wt/ev_list.txt
done

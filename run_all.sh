#!/bin/bash
# Developer helper: run every quick (or thorough) check in sequence and summarise.
tier=${1:-quick}; shift
ids=${@:-C01 C02 C03 C04 C05 C06 C07 C08 C09 C10 C11 C12 C13 C14 C15 C16 C17 C18 C19 C20}
mkdir -p /verif/out/logs
for id in $ids; do
  s=$(date +%s)
  /venv/bin/python /verif/check.py $id --tier $tier > /verif/out/logs/$id.$tier.log 2>&1
  rc=$?
  echo "$id rc=$rc $(( $(date +%s) - s ))s $(tail -1 /verif/out/logs/$id.$tier.log | cut -c1-160)"
done

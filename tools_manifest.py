#!/venv/bin/python
"""Regenerate MANIFEST.json from the table below (keeps it valid and in one place)."""
import json, os

HERE = os.path.dirname(os.path.abspath(__file__))
PROPS = [json.loads(l) for l in open(os.path.join(HERE, "properties.jsonl"))]

# property -> (technique, level text, level note, design ref)
CLAIMED = json.load(open(os.path.join(HERE, "claimed.json")))

checks = []
na = []
for p in PROPS:
    pid = p["id"]
    c = CLAIMED.get(pid)
    if not c or not c.get("claimed"):
        na.append({"property_id": pid, "reason": (c or {}).get("reason", "check not built yet in this session; planned (DESIGN.md section 2)")})
        continue
    checks.append({
        "property_id": pid,
        "quick_cmd": f"/venv/bin/python check.py {pid} --tier quick",
        "thorough_cmd": f"/venv/bin/python check.py {pid} --tier thorough",
        "evidence_file": f"/verif/evidence/{pid}.json",
        "replay_cmd_template": f"/venv/bin/python check.py {pid} --replay {{path}}",
        "engine": "hypothesis-pbt",
        "level_claimed": {"category": c.get("category", "exploration"), "text": c["text"], "design_ref": c.get("design_ref", f"DESIGN.md section 2, {pid}")},
        "level_note": c["note"],
        "technique": c["technique"],
    })

manifest = {
    "version": 1,
    "setup_cmd": "/venv/bin/python -c 'import hypothesis' 2>/dev/null || /venv/bin/pip install --no-index --find-links /opt/veriftools/wheels hypothesis; mkdir -p /verif/evidence",
    "hooks": {
        "guard": "BEMPP_CL_VERIF",
        "enable": "no source hooks are needed: checks import bempp_cl from /repo's working tree (PYTHONPATH) and put the exafmm stand-in /verif/stubs on sys.path; BEMPP_CL_VERIF=1 is exported for the workers but nothing in /repo reads it",
        "baseline_off_cmd": "cd /repo && /venv/bin/python -m pytest -ra -q -p no:cacheprovider --timeout=900 --continue-on-collection-errors",
        "source_commits": [],
        "add_only": True,
    },
    "engines": [
        {"name": "hypothesis-pbt", "path": "/verif/check.py", "serves_properties": [c["property_id"] for c in checks],
         "kind_free_text": "Hypothesis 6.168 generators over JSON descriptors (meshes, spaces, operators, expression trees, histories) + itertools enumeration of finite domains, shards packed into at most 6 (quick) or 8 (thorough) fresh interpreters; explicit oracles (reference numerics, brute-force models, metamorphic and differential relations); signature-bucketed shrinking; replay files"},
    ],
    "checks": checks,
    "not_applicable": na,
    "notes": "All checks: /verif/check.py <ID> --tier quick|thorough [--replay FILE]; VERIF_SEED seeds every shard; evidence in /verif/evidence/<ID>.json; known findings in /verif/known_findings.json; seeded mutations in /verif/seeded/.",
}
json.dump(manifest, open(os.path.join(HERE, "MANIFEST.json"), "w"), indent=1)
print("claimed", len(checks), "not_applicable", len(na))

#!/bin/bash
# Run the check of a seeded mutation's property against the patched tree and record whether it is caught.
# usage: tools_seeded_detect.sh <name> [tier] [seed] [extra check.py args...]
#   patched tree: /tmp/wt/ev/<name> (scratch worktree of /repo with seeded/<name>/patch.diff applied)
n=$1; tier=${2:-quick}; seed=${3:-1}; shift; shift; shift
prop=${n%%_*}; wt=/tmp/wt/ev/$n; s=/verif/seeded/$n
[ -d "$wt" ] || { echo "no worktree $wt"; exit 2; }
log=/verif/out/seeded/$n.$tier.$seed.log; mkdir -p /verif/out/seeded
t0=$(date +%s)
VERIF_SEED=$seed VERIF_REPO=$wt /venv/bin/python /verif/check.py $prop --tier $tier --no-evidence "$@" > $log 2>&1
rc=$?
sigs=$(grep -o "signature [^]]*" $log | sort -u | tr '\n' ';')
nv=$(grep -c '^VIOLATION' $log)
echo "tier=$tier seed=$seed args='$*' rc=$rc violations=$nv wall=$(( $(date +%s) - t0 ))s" >> $s/detect.txt
grep '^VIOLATION' $log | head -3 | while read l; do
  f=$(echo "$l" | sed 's/.*replay=//'); /venv/bin/python -c "
import json,sys
d=json.load(open('$f')); print('  caught-by:', d['check'], d['signature'], '--', d['message'][:200])" >> $s/detect.txt
done
echo "$n tier=$tier seed=$seed rc=$rc violations=$nv"

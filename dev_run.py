#!/venv/bin/python
"""Developer helper: run one shard spec in-process (no subprocess), print failures.
usage: dev_run.py C09 '{"check":"space","group":"scalar","meshkind":"closed","examples":50}'"""
import sys, json, os, time, importlib
HERE = os.path.dirname(os.path.abspath(__file__))
sys.path[:0] = [HERE, os.path.join(HERE, "stubs"), os.environ.get("VERIF_REPO", "/repo")]
os.environ.setdefault("NUMBA_NUM_THREADS", "2")
from vlib import pbt
prop = sys.argv[1]; spec = json.loads(sys.argv[2]); spec.setdefault("seed", 1); spec.setdefault("tier", "quick")
mod = importlib.import_module("props." + prop.lower())
t0 = time.time()
if hasattr(mod, "setup"): mod.setup(spec)
st = pbt.Stats()
name = spec["check"]
if hasattr(mod, "cases") and mod.cases(spec) is not None:
    pbt.run_cases(name, mod.CHECKS[name], mod.cases(spec), st)
else:
    pbt.run_search(name, mod.CHECKS[name], mod.strategy(spec), st, int(spec["seed"]), int(spec.get("examples", 50)), shrink_seconds=float(spec.get("shrink_s", 30)))
d = st.as_dict()
print("evaluations", d["evaluations"], "nontrivial", len(d["keys_nontrivial"]), "excluded", d["excluded_by_signature"], "time %.1f" % (time.time() - t0))
print("labels", json.dumps(d["labels"], sort_keys=True))
for f in d["failures"]:
    print("FAIL", f["signature"], "::", f["message"][:500]); print("   desc", json.dumps(f["descriptor"]))
    if f.get("details", {}).get("traceback"): print(f["details"]["traceback"][-1200:])
if d["samples"]: print("sample", json.dumps(d["samples"][0])[:600])

#!/opt/veriftools/pyvenv/bin/python
"""Developer helper: validate MANIFEST.json and every evidence file against the schemas in /root/.vp."""
import json, glob, sys
import jsonschema
ok = True
try:
    jsonschema.validate(json.load(open('/verif/MANIFEST.json')), json.load(open('/root/.vp/MANIFEST.schema.json')))
    print("MANIFEST ok")
except Exception as e:
    ok = False; print("MANIFEST INVALID", str(e)[:300])
sch = json.load(open('/root/.vp/EVIDENCE.schema.json'))
for f in sorted(glob.glob('/verif/evidence/*.json')):
    d = json.load(open(f))
    try:
        jsonschema.validate(d, sch)
        c = d.get("coverage", {})
        print(f.split('/')[-1], "ok", d.get("tier"), "eval", c.get("evaluations"), "nontrivial", c.get("distinct_nontrivial"), "viol", d.get("violations"), "skipped", c.get("skipped_for_budget"))
    except Exception as e:
        ok = False; print(f, "INVALID", str(e)[:300])
sys.exit(0 if ok else 1)

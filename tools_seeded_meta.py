#!/venv/bin/python
"""Developer helper: assemble seeded/<name>/meta.json, sensitivity.json and the DESIGN.md table from the confirmation and
detection logs written by tools_seeded_confirm.sh / tools_seeded_stable.sh / tools_seeded_detect.sh.

meta.json = {property, summary, needs, confirmed_by_me: {...}, detection: [...], ran: [...]}
sensitivity.json = {property: [{"mutation": name, "killed": bool, "by": [signatures], "tier": ...}]}
"""
import json
import os
import re
import sys

HERE = os.path.dirname(os.path.abspath(__file__))
SD = os.path.join(HERE, "seeded")


def parse_detect(path):
    runs = []
    if not os.path.exists(path):
        return runs
    cur = None
    for line in open(path):
        line = line.rstrip("\n")
        m = re.match(r"tier=(\S+) seed=(\S+) args='(.*)' rc=(\d+) violations=(\d+) wall=(\d+)s", line)
        if m:
            cur = {"tier": m.group(1), "seed": int(m.group(2)), "args": m.group(3), "rc": int(m.group(4)), "violations": int(m.group(5)),
                   "wall_s": int(m.group(6)), "caught_by": []}
            runs.append(cur)
        elif line.startswith("  caught-by:") and cur is not None:
            cur["caught_by"].append(line[len("  caught-by:"):].strip())
    return runs


def main():
    sens = {}
    rows = []
    for name in sorted(os.listdir(SD)):
        d = os.path.join(SD, name)
        if not os.path.exists(os.path.join(d, "patch.diff")):
            continue
        am = json.load(open(os.path.join(d, "agent_meta.json"))) if os.path.exists(os.path.join(d, "agent_meta.json")) else {}
        prop = am.get("property", name.split("_")[0])
        conf = {}
        cp = os.path.join(d, "confirm.txt")
        if os.path.exists(cp):
            for line in open(cp):
                line = line.strip()
                if "=" in line and not line.startswith("stable"):
                    k, v = line.split("=", 1)
                    conf[k] = v
                elif line.startswith("stable_with_patch:"):
                    conf["stable_with_patch"] = line.split(":", 1)[1].strip()
        runs = parse_detect(os.path.join(d, "detect.txt"))
        killed = [r for r in runs if r["rc"] == 1 and r["violations"] > 0]
        quick_killed = [r for r in killed if r["tier"] == "quick" and not r["args"]]
        ran = [
            f"PYTHONPATH=<scratch worktree with patch> /venv/bin/python seeded/{name}/demo.py -> exit {conf.get('demo_with_patch_exit', '?')}",
            f"PYTHONPATH=/repo /venv/bin/python seeded/{name}/demo.py -> exit {conf.get('demo_on_repo_exit', '?')}",
        ]
        if "stable_with_patch" in conf:
            ran.append(f"53 pinned tests inside the patched scratch worktree -> {conf['stable_with_patch']}")
        else:
            tail_p = os.path.join(d, "agent_stable_tail.txt")
            tails = [l.strip() for l in open(tail_p) if "passed" in l or "failed" in l] if os.path.exists(tail_p) else []
            ran.append("53 pinned tests with the patch: run by the seeding agent in its worktree, not repeated by me (a run takes 25-60 min here); "
                       "result lines of the agent's logs (agent_stable_tail.txt): " + (" | ".join(tails[-3:]) if tails else "see agent_ran"))
        for r in runs:
            ran.append(f"VERIF_SEED={r['seed']} VERIF_REPO=<patched worktree> check.py {prop} --tier {r['tier']} {r['args']} --no-evidence -> rc={r['rc']}, "
                       f"{r['violations']} VIOLATION line(s), {r['wall_s']} s" + (": " + " | ".join(r["caught_by"][:2]) if r["caught_by"] else ""))
        meta = {
            "property": prop,
            "summary": am.get("summary", ""),
            "needs": am.get("needs", ""),
            "confirmed": {"demo_fails_with_patch": conf.get("demo_with_patch_exit") not in (None, "0"),
                          "demo_passes_on_repo": conf.get("demo_on_repo_exit") == "0",
                          "pinned_tests_with_patch": conf.get("stable_with_patch", "agent-reported only")},
            "detected": bool(killed),
            "detected_by_quick_tier": bool(quick_killed),
            "ran": ran,
            "agent_ran": am.get("ran", []),
        }
        json.dump(meta, open(os.path.join(d, "meta.json"), "w"), indent=1)
        sens.setdefault(prop, []).append({
            "mutation": name, "killed": bool(killed), "killed_by_quick": bool(quick_killed),
            "by": sorted({c.split(" -- ")[0] for r in killed for c in r["caught_by"]})[:4],
            "runs": [{"tier": r["tier"], "seed": r["seed"], "args": r["args"], "rc": r["rc"]} for r in runs],
        })
        q1 = [r for r in runs if r["tier"] == "quick" and r["seed"] == 1 and not r["args"]]
        q1_last = q1[-1] if q1 else None
        others = [f"{r['tier']} seed {r['seed']}{(' ' + r['args']) if r['args'] else ''}: {'caught' if r['rc'] == 1 and r['violations'] else 'not caught'}"
                  for r in runs if r is not q1_last]
        rows.append((name, prop, (q1_last is not None and q1_last["rc"] == 1 and q1_last["violations"] > 0), bool(killed),
                     (am.get("summary", "")[:150]).replace("|", "/").replace("\n", " "),
                     "; ".join(sorted({c.split(" -- ")[0].split(" ", 1)[1] if " " in c.split(" -- ")[0] else c for r in killed for c in r["caught_by"]})[:2])
                     + ((" [other runs: " + "; ".join(others) + "]") if others else "") + ("" if runs else " [not run]")))
    json.dump(sens, open(os.path.join(HERE, "sensitivity.json"), "w"), indent=1)
    with open(os.path.join(HERE, "out", "seeded_table.md"), "w") as f:
        f.write("| seeded change | property | quick, seed 1 (last run) | any run | what it changes | caught by (signatures) |\n|---|---|---|---|---|---|\n")
        for r in rows:
            f.write(f"| {r[0]} | {r[1]} | {'yes' if r[2] else 'no'} | {'yes' if r[3] else 'NO'} | {r[4]} | {r[5]} |\n")
    # insert into DESIGN.md between the markers
    dp = os.path.join(HERE, "DESIGN.md")
    ds = open(dp).read()
    if "<!-- SEEDED_TABLE -->" in ds:
        head = ds.split("<!-- SEEDED_TABLE -->")[0]
        tail = ds.split("<!-- /SEEDED_TABLE -->")[1] if "<!-- /SEEDED_TABLE -->" in ds else "\n"
        tab = open(os.path.join(HERE, "out", "seeded_table.md")).read()
        open(dp, "w").write(head + "<!-- SEEDED_TABLE -->\n" + tab + "<!-- /SEEDED_TABLE -->" + tail)
    nk = sum(1 for r in rows if r[3])
    print(f"{len(rows)} seeded changes, {nk} detected, {sum(1 for r in rows if r[2])} by the default quick tier")
    for r in rows:
        if not r[3]:
            print("  MISSED:", r[0])


if __name__ == "__main__":
    sys.exit(main())
